#!/bin/sh
# tools/verify_seed.sh <name> <patch.diff> <demo.py>: confirm a seeded change on a fresh scratch worktree of /repo's HEAD:
# demo passes without it, fails with it, and the existing suite gives the baseline result with it. Prints one summary line.
name="$1"; patch="$2"; demo="$3"
wt=/tmp/vs/$name
mkdir -p /tmp/vs; rm -rf "$wt"; git -C /repo worktree prune
git -C /repo worktree add -q --detach "$wt" HEAD || exit 3
cp "$demo" "$wt/_demo.py"
sed -i "s#/tmp/seed/[A-Za-z0-9_-]*#$wt#g" "$wt/_demo.py"
( cd "$wt" && PYTHONPATH="$wt/src" /venv/bin/python _demo.py >/tmp/vs/$name.before.log 2>&1 ); before=$?
( cd "$wt" && git apply "$patch" ) || { echo "$name: PATCH DOES NOT APPLY"; git -C /repo worktree remove --force "$wt"; exit 3; }
( cd "$wt" && PYTHONPATH="$wt/src" /venv/bin/python _demo.py >/tmp/vs/$name.after.log 2>&1 ); after=$?
mv "$wt/_demo.py" /tmp/vs/$name.demo.py
suite=$( cd "$wt" && PYTHONPATH="$wt/src" /venv/bin/python -m pytest -q -p no:cacheprovider --timeout=900 --continue-on-collection-errors 2>&1 | tail -1 )
git -C /repo worktree remove --force "$wt"
echo "$name: demo_before=$before demo_after=$after suite: $suite"
