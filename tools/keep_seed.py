#!/usr/bin/env python3
"""tools/keep_seed.py <name> <property> <srcdir> "<needs>" : store a confirmed seeded change under /verif/seeded/<name>/"""
import sys, os, json, shutil, re
name, prop, src, needs = sys.argv[1:5]
d = os.path.join("/verif/seeded", name)
os.makedirs(d, exist_ok=True)
shutil.copy(os.path.join(src, "patch.diff"), os.path.join(d, "patch.diff"))
demo = [f for f in os.listdir(src) if f.startswith("demo_") and f.endswith(".py")][0]
text = open(os.path.join(src, demo)).read()
open(os.path.join(d, "demo.py"), "w").write(text)
notes = os.path.join(src, "NOTES.md")
if os.path.exists(notes):
    shutil.copy(notes, os.path.join(d, "NOTES.md"))
log = "/tmp/vs/%s.after.log" % os.path.basename(src.rstrip("/"))
meta = dict(property=prop, name=name, needs_to_manifest=needs,
            confirmed=dict(how="tools/verify_seed.sh on a fresh scratch worktree of /repo HEAD: demo exits 0 without the patch, 1 with it; "
                               "existing suite with the patch: 500 passed, 25 failed (hg), 1 collection error = baseline",
                           demo_before=0, demo_after=1, suite="25 failed, 500 passed, 1 error"),
            source="independent sub-agent given only the property text and a scratch worktree",
            detected_by=[], notes="")
json.dump(meta, open(os.path.join(d, "meta.json"), "w"), indent=1)
print("kept", d)
