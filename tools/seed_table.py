#!/usr/bin/env python3
"""tools/seed_table.py: rewrite the table of seeded changes in DESIGN.md (between the markers) from /verif/seeded/*/meta.json"""
import os, json, glob
rows = []
for p in sorted(glob.glob("/verif/seeded/*/meta.json")):
    m = json.load(open(p))
    det = []
    for r in m.get("detected_by", []):
        if r["exit"] == 1 and r["violation_lines"]:
            cl = sorted(r["clauses"].items(), key=lambda kv: -kv[1])[:3]
            det.append("%s: %s" % (r["check"], ", ".join("`%s`" % k.split(" (")[0] for k, _n in cl)))
        else:
            det.append("%s: not seen (exit %d)" % (r["check"], r["exit"]))
    note = m.get("strengthened", "")
    if m.get("obsolete"):
        det, note = ["(obsolete)"], m["obsolete"]
    rows.append("| %s | %s | %s | %s |" % (m["name"], m["needs_to_manifest"].replace("|", "\\|"), "; ".join(det) or "not run", note))
table = "| seeded change | needs | quick check of its property (seed 0): failing clauses | what was strengthened to catch it |\n|---|---|---|---|\n" + "\n".join(rows)
p = "/verif/DESIGN.md"
s = open(p).read()
a, b = "<!-- seed-table:begin -->", "<!-- seed-table:end -->"
i, j = s.index(a), s.index(b)
open(p, "w").write(s[:i + len(a)] + "\n" + table + "\n" + s[j:])
print(len(rows), "rows")
