#!/bin/sh
# tools/try_seed.sh <patch.diff> <Cxx> [check args...]: apply a seeded change to /repo, run the check, undo it straight afterwards
patch="$1"; prop="$2"; shift 2
git -C /repo apply "$patch" || { echo "patch does not apply"; exit 3; }
/verif/check "$prop" "$@"; rc=$?
git -C /repo checkout -- . 
echo "exit=$rc"
exit $rc
