#!/usr/bin/env python3
"""[MATRIX_JOBS=n] tools/seed_matrix.py [name-prefix ...]: run, for every seeded change under /verif/seeded, the quick check of its property against a scratch
worktree of /repo's HEAD with the change applied (tools/try_seed_copy.sh; /repo itself is not touched) and record in the seed's meta.json
what the check said: exit code, failing clauses (the histogram the check prints) and the wall time.  A seed whose check exits 0 is a MISS."""
import os
import re
import sys
import json
import time
import subprocess as sp

ROOT = "/verif/seeded"
SEED = os.environ.get("VERIF_SEED", "0")


def main():
    want = sys.argv[1:]
    names = sorted(n for n in os.listdir(ROOT) if os.path.isdir(os.path.join(ROOT, n)) and (not want or any(n.startswith(w) for w in want)))
    missed = []
    from concurrent.futures import ThreadPoolExecutor

    def one(n):
        d = os.path.join(ROOT, n)
        meta = json.load(open(os.path.join(d, "meta.json")))
        if os.environ.get("MATRIX_ONLY_MISSING") and meta.get("detected_by"):
            return
        if meta.get("obsolete"):
            print("%-40s obsolete: %s" % (n, meta["obsolete"][:100]), flush=True)
            return
        prop = meta["property"]
        checks = [prop] + [c for c in meta.get("also_check", [])]
        meta["detected_by"] = []
        for c in checks:
            t0 = time.time()
            p = sp.run(["/verif/tools/try_seed_copy.sh", os.path.join(d, "patch.diff"), c, "--tier", "quick", "--seed", SEED], stdout=sp.PIPE, stderr=sp.STDOUT)
            out = p.stdout.decode("utf-8", "replace")
            clauses = {}
            for m in re.finditer(r"^\s+(\d+) x (\{.*)$", out, re.M):
                try:
                    facts = json.loads(m.group(2))
                    k = facts.get("clause") or facts.get("kind") or json.dumps(facts, sort_keys=True)[:120]
                except ValueError:
                    mm = re.search(r'"clause": "([^"]*)"', m.group(2))
                    k = mm.group(1) if mm else m.group(2)[:120]
                clauses[k] = clauses.get(k, 0) + int(m.group(1))
            nviol = len(re.findall(r"^VIOLATION property=", out, re.M))
            mach = re.findall(r"^MACHINERY-FAILURE.*$", out, re.M)
            rec = dict(check=c, tier="quick", seed=int(SEED), exit=p.returncode, violation_lines=nviol, clauses=clauses, wall_s=round(time.time() - t0, 1))
            if mach:
                rec["machinery_failure"] = mach[0][:300]
            meta["detected_by"].append(rec)
            print("%-40s %s exit=%d violations=%d %s %.0fs" % (n, c, p.returncode, nviol, json.dumps(clauses)[:200], time.time() - t0), flush=True)
        if not any(r["exit"] == 1 and r["violation_lines"] for r in meta["detected_by"]):
            missed.append(n)
        json.dump(meta, open(os.path.join(d, "meta.json"), "w"), indent=1)
    with ThreadPoolExecutor(max_workers=int(os.environ.get("MATRIX_JOBS", "1"))) as ex:       # MATRIX_JOBS=3: three seeds at a time (each run has a scratch worktree and evidence directory of its own)
        list(ex.map(one, names))
    print("MISSED:", missed)
    return 1 if missed else 0


if __name__ == "__main__":
    sys.exit(main())
