HOOK_COMMITS = ["415c720"]
NOT_YET = {}
_NOTE = ("Trusted: TLC 1.8 and the TLA+ community modules; the Python glue of harness/glue.py (pattern string <-> AST, text <-> code points, "
         "state projection); bounds as stated in the evidence file. The specification is the only oracle.")
CHECKS["C17"] = dict(
    technique="TLA+ spec (BVLexId) model-checked with TLC + trace validation of recorded BUILD bumps against the spec",
    text=("TLC explores the BUILD successor graph from every digit string of 1..4 (thorough: 5) digits and boundary starts of every width up to 7 "
          "with the property as an action property; every one-step bump of the real code from the same starts, a seeded sample of 5..7 digit starts and "
          "CLI chains crossing every digit-length expansion are validated event by event by the trace spec (Trace_Text, event `build`)."),
    note=_NOTE, ref="DESIGN.md section 6, C17")
CHECKS["C05"] = dict(
    technique="TLA+ spec (BVVersion: operational Incr vs declarative README rules) model-checked with TLC + trace validation of `bumpver test` runs",
    text=("Design level: TLC enumerates patterns x version states x all applicable flag sets (up to 448) x date offsets and checks the step-by-step Incr "
          "against the per-part README rules (BumpClause), refusals against the documented refusal reasons. Conformance: thousands of seeded and systematic "
          "`bumpver test OLD PATTERN <flags> --date D` runs are recorded as `incr` events; the trace spec reads old and new text with its own recogniser and "
          "evaluates the rules on every event."),
    note=_NOTE, ref="DESIGN.md section 6, C05")
