HOOK_COMMITS = ["415c720", "9649be6", "80c839d"]
NOT_YET = {}
_NOTE = ("Trusted: TLC 1.8 and the TLA+ community modules; the Python glue of harness/glue.py (pattern string <-> AST, text <-> code points, "
         "state projection); bounds as stated in the evidence file. The specification is the only oracle.")
CHECKS["C17"] = dict(
    technique="TLA+ spec (BVLexId) model-checked with TLC + trace validation of recorded BUILD bumps against the spec",
    text=("TLC explores the BUILD successor graph from every digit string of 1..4 (thorough: 5) digits and boundary starts of every width up to 7 "
          "with the property as an action property; every one-step bump of the real code from the same starts, a seeded sample of 5..7 digit starts and "
          "CLI chains crossing every digit-length expansion are validated event by event by the trace spec (Trace_Text, event `build`)."),
    note=_NOTE, ref="DESIGN.md section 6, C17")
CHECKS["C05"] = dict(
    technique="TLA+ spec (BVVersion: operational Incr vs declarative README rules) model-checked with TLC + trace validation of `bumpver test` runs",
    text=("Design level: TLC enumerates patterns x version states x all applicable flag sets (up to 448) x date offsets and checks the step-by-step Incr "
          "against the per-part README rules (BumpClause), refusals against the documented refusal reasons. Conformance: thousands of seeded and systematic "
          "`bumpver test OLD PATTERN <flags> --date D` runs are recorded as `incr` events; the trace spec reads old and new text with its own recogniser and "
          "evaluates the rules on every event."),
    note=_NOTE, ref="DESIGN.md section 6, C05")
CHECKS["C02"] = dict(
    technique="TLA+ spec (BVParts/BVPattern/BVVersion/BVCalendar) model-checked with TLC + trace validation of render/parse round trips of the real code",
    text=("Design level: (a) TLC walks every day of the range (quick 2001..2099 + both ends, thorough 1000..9999) and checks that each calendar part's rendering "
          "is accepted in full by that part's recogniser and reads back equal (the value sets come from the spec's calendar, which is how the week-53 gap S1 shows); "
          "(b) corpus patterns x pool states x every flag set: the pool state and the state one bump away render to a text that is accepted, reads back with "
          "every part equal, re-renders byte for byte and decomposes uniquely. Conformance: rt/rt2/parse events recorded from format_version, "
          "parse_version_info, incr and `bumpver test` chains are validated by the trace spec."),
    note=_NOTE, ref="DESIGN.md section 6, C02")
CHECKS["C14"] = dict(
    technique="TLA+ spec (BVCalendar/BVVersion/BVPep440) model-checked with TLC over all day pairs + trace validation of cal_info, renderings and bumps of the real code",
    text=("Design level: TLC walks consecutive day pairs (quick: 2019..2030 plus every New Year +-4 days of 2001..2099; thorough: every pair 2001..2099) and checks for all 48 "
          "coherent year x sub-part combinations that the rendered version never decreases in PEP 440 order; every rejected pairing has a witness day pair on which it "
          "does decrease; bump-level pairs (old date, new date) incl. new < old never move calendar parts backwards. The theorem transfers to the code through exhaustive "
          "equalities validated by the trace spec: cal_info on every day 2001..2099, the code's own renderings of consecutive days (`mono` events, compared with the spec's "
          "VerCmp and the code's own comparison), is_valid_week_pattern verdicts on all pairings, and library/CLI bumps around every New Year."),
    note=_NOTE, ref="DESIGN.md section 6, C14")
CHECKS["C16"] = dict(
    technique="TLA+ spec of PEP 440 and legacy ordering (BVPep440) model-checked with TLC (order laws, PEP 440 example chain) + trace validation of the real comparison pair by pair",
    text=("Design level: over a universe of abstract PEP 440 records (all pairs; all triples of a sub-universe) and legacy texts TLC checks that the spec's ordering is reflexive, "
          "antisymmetric, transitive, equal exactly on equal keys, places every legacy text below every PEP 440 text, round-trips through its canonical printing, and reproduces the "
          "ordering chain and normalisation examples of the PEP 440 document (ASSUMEs). Conformance: for ~1,300 (thorough ~10,000) distinct texts in many spellings the real "
          "parse_version is asked for class, str() and <, <=, ==, > on seeded pairs and triples; the trace spec parses each text itself and checks the code's answers against "
          "its ordering and the order laws on the answers themselves."),
    note=_NOTE, ref="DESIGN.md section 6, C16")
CHECKS["C01"] = dict(
    technique="TLA+ spec (BVResolve gate/start-version, BVVersion, BVPep440) model-checked with TLC + trace validation of `bumpver test` / `update [--dry]` runs",
    text=("Design level: the front half of test/update as a state machine (candidate from automatic increment or one of ten --set-version target classes, gate, dry/real) with the "
          "invariants AnnouncedValidAndGreater, FailureTouchesNothing, DryWritesNothing, EqualSpellingRejected. Conformance: thousands of real `bumpver test` runs and "
          "`bumpver update [--dry]` runs on scratch projects (commit off, tag lists served by a fake git, three tag scopes, --ignore-vcs-tag) are recorded as `gate` events; "
          "the trace spec recomputes the start version from config value, tag list and scope, and evaluates the property on exit code, announced text and file changes."),
    note=_NOTE, ref="DESIGN.md section 6, C01")
CHECKS["C15"] = dict(
    technique="TLA+ spec of the README's pep440 derivation and of PEP 440 (BVDerived, BVPep440) model-checked with TLC + trace validation of the texts the real code writes for {pep440_version}",
    text=("Design level: for DP = Pep440Pattern(P) (the README's normalisation rules as an operator on pattern ASTs) TLC checks over patterns x pool states x all six tags that the "
          "text rendered through DP is PEP 440, denotes the same version as the version text (same release, pre/post/dev), is accepted by DP, agrees with the canonical form and "
          "is in the stated normal form; the glued-separator gap S18 is a named deviation. Conformance: the code's own derived pattern is taken as data; the text written for "
          "{pep440_version} is obtained from the library and end to end (`update` rewriting a file with both placeholders, `test` printing PEP440) and every predicate is "
          "evaluated by the trace spec on the recorded texts."),
    note=_NOTE, ref="DESIGN.md section 6, C15")
CHECKS["C07"] = dict(
    technique="TLA+ spec (BVPattern/BVRegex: every literal code point is a literal node) model-checked with TLC + trace validation of the real compiled search patterns on lines",
    text=("Design level: for every literal over the 69 symbols up to length 2 (thorough 3) TLC checks that Search(Compile(lit t), line) hits exactly where t occurs, on all lines "
          "within edit distance 1, and that ^t$ matches only the whole line. Conformance: for the same literals, seeded literals up to length 40 rich in regex metacharacters, "
          "literals wrapped around YYYY.MM and anchored ones, the real compile_pattern(...).regexp.search(line) spans are recorded as `search` events and compared with the "
          "spec's Search; `bumpver grep` is driven end to end on a sample."),
    note=_NOTE, ref="DESIGN.md section 6, C07")
CHECKS["C20"] = dict(
    technique="TLA+ spec of the legacy engine (BVLegacy) model-checked with TLC + trace validation of v1 render/parse/incr and of `bumpver test`/`update`/`show` with legacy patterns",
    text=("Design level: 23 documented legacy version patterns x dates x build ids x tags x applicable flag sets: the rendering of a state is accepted by its pattern, reads back "
          "with the same parts and re-renders; a bumped version is greater under VerCmp (for {pycalver} also as a plain string). Conformance: rt1 and incr1 events from v1version and "
          "`bumpver test V '{...}'`, CLI chains of 200 (thorough 1,000) bumps, and per pattern the same inputs through `test`, `update --dry`, `update` and `show`, which must agree."),
    note=_NOTE, ref="DESIGN.md section 6, C20")
CHECKS["C03"] = dict(
    technique="TLA+ spec of file rewriting (BVRewrite) model-checked with TLC + trace validation of files before/after real `update` runs on generated layouts",
    text=("Design level: over layouts of up to 3 (thorough 4) lines built from 11 line kinds (occurrences of two patterns alone, together in either order, with text around) x 3 separators "
          "TLC checks NoStaleOccurrence (searching the NEW text every configured pattern shows the new version), OnlySpansChange, MissingPatternRefused, DiffRoundTrip; the repaired "
          "defect S2 is kept as a switch whose TRUE setting must be rejected (self-test of the invariants). Conformance: hundreds (thorough 20,000) of generated projects - 1..5 files x "
          "1..4 patterns, shared lines, globs, four line-ending regimes - are updated by the real bumpver; each configured file's text before and after is a `rewrite` event whose expected "
          "text the trace spec computes with its own Search/Render, naming the failing clause; the layout's well-formedness is decided by the spec."),
    note=_NOTE, ref="DESIGN.md section 6, C03")
CHECKS["C04"] = dict(
    technique="TLA+ spec of file rewriting (BVRewrite) model-checked with TLC + trace validation of bytes before/after real `update` runs under two process locales",
    text=("Design level: as C03, plus Join(Split(t)) = t and separator precedence for every text over {a, CR, LF} up to 7 (thorough 9) symbols. Conformance: layouts with hostile filler "
          "(BOM, CJK, combining marks, control characters, regex metacharacters), LF/CRLF/CR/mixed endings, with/without final newline, run in process (UTF-8) and again in a subprocess with "
          "LC_ALL=C and UTF-8 mode off; the trace spec checks that each new text is the old one outside the matched spans (clauses line-structure, unmatched-line-changed, "
          "text-outside-span-changed); unconfigured files are compared byte for byte with mtime; both locales must give identical bytes."),
    note=_NOTE, ref="DESIGN.md section 6, C04")
CHECKS["C13"] = dict(
    technique="TLA+ spec (BVRewrite: ApplyHunks, Rewrite) model-checked with TLC + trace validation of printed --dry diffs against the real run's result",
    text=("Design level: MC_C03 (DiffRoundTrip: a line diff of old and new applied with the strict ApplyHunks gives new; rewrite invariants). Conformance: for each generated project "
          "(consistent line endings; stale and partial-only files; hostile text; commit on with a fake git; legacy patterns) `update --dry` is run, every file is compared byte for byte "
          "and by mtime, the fake VCS log must be free of mutating commands and hooks, then the real `update` runs with the same arguments; the printed diff is parsed syntactically into "
          "hunks and the trace spec applies them to the old text and compares with what the real run wrote; a dry exit 0 requires a real exit 0 and the same announced version."),
    note=_NOTE, ref="DESIGN.md section 6, C13")
CHECKS["C06"] = dict(
    technique="TLA+ spec of the update pipeline with single faults (MC_C06) model-checked with TLC + replay of every exported terminal state against the real `update`",
    text=("Design level: projects of 1..4 (thorough 5) configured files x 1..2 patterns, every single fault (each (file, pattern) non-matching, each file removed, gate rejection), "
          "commit on/off, dry/real, both engines; invariants FailedUpdateTouchesNothing, FaultMeansFailure, NoFaultMeansSuccess, DryWritesNothing; the lazy write loop of the repaired "
          "defect S3 is kept as a constant whose TRUE setting must be rejected. Conformance (spec -> code): TLC exports one JSON line per terminal state; each is concretised (config "
          "file entry at a varying position, fake git when commit is on) and run through the real `update`; exit class, changed files and the VCS command log are validated by the trace "
          "spec (Trace_Update, event `fault`)."),
    note=_NOTE, ref="DESIGN.md section 6, C06")
CHECKS["C10"] = dict(
    technique="TLA+ spec of the update pipeline (BVPipeline, MC_C10) model-checked with TLC over the full configuration product + replay of lattice configurations against the real `update` with fake git/hg",
    text=("Design level: the pipeline as a step machine over config (commit,tag,push) x tri-state flags x hooks {absent, ok, fail}^2 x hook source x dirty x --allow-dirty x tag message x "
          "remote x --dry x fetch x one injected command failure (thorough: also hg, --ignore-vcs-tag and the uniqueness check): invariants Ordered, NoCommitNoTagPush, NoFetch, DryInert, "
          "RejectFirst, OnlyIfEnabled, StopAtFailure on the log, and agreement of the machine with the declarative Expected(conf) at every terminal state. Conformance (spec -> code): "
          "all 135 config x flag combinations, every failure point for git and hg, the --no-fetch/--ignore-vcs-tag/uniqueness cube, and seeded random configurations are concretised "
          "(fake VCS answers, generated hook scripts, status output) and run; the trace spec projects the recorded command/hook log and compares it, the exit class, the file change "
          "and the hook environment with Expected(conf)."),
    note=_NOTE, ref="DESIGN.md section 6, C10")
CHECKS["C12"] = dict(
    technique="TLA+ spec of command templates and message rendering (BVVcs) model-checked with TLC + trace validation of the argv a fake git/hg receives from real `update` runs",
    text=("Design level: templates over 15 hostile symbols/placeholders up to length 3 (thorough 4) from config or command line: the message is one argument whatever it contains, "
          "no documented placeholder is left, literals are kept, OLD/NEW are substituted only as whole words and only on the command line. Conformance: seeded `update` runs with "
          "commit/tag/push on against the fake git (every 4th: hg) with hostile message templates and file names; every mutating VCS invocation is an `argv` event whose expected "
          "argv the trace spec builds from the command table and the rendered template; hg's message is read from the --logfile file; staged paths must be the configured ones."),
    note=_NOTE, ref="DESIGN.md section 6, C12")
CHECKS["C09"] = dict(
    technique="TLA+ spec of start-version resolution and the uniqueness gate (BVResolve, MC_C09) model-checked with TLC + trace validation of `show`/`update --dry` over tag sets (fake and real git)",
    text=("Design level: per pattern a universe of 8 tag texts (valid below/equal/above the config value, a PEP 440-equal respelling, another scheme, junk, trailing junk, an impossible "
          "date), every placement of up to 4 of them on two branches x 3 scopes x --ignore-vcs-tag x 3 config values; invariants StartIsMaxInScope, ConfigWhenNoTagMatches, JunkIsInert, "
          "NewIsFresh (this is where the missing uniqueness check under --ignore-vcs-tag, S14, appeared as a one-tag counterexample). Conformance: seeded tag sets of 0..6 (thorough 30) tags "
          "are served by a fake git (and built as real git repositories with two branches on a sample); `show` and `update --dry` run with and without the non-matching tags; the trace spec "
          "recomputes the start version with its own recogniser and PEP 440 order and checks maximality, membership, inertness of junk and freshness of the announced version."),
    note=_NOTE, ref="DESIGN.md section 6, C09")
CHECKS["C11"] = dict(
    technique="TLA+ spec of the porcelain status format and the dirty check (BVStatus, MC_C11) model-checked with TLC + trace validation of committing `update` runs on real git working trees",
    text=("Design level: four files (two with a version pattern, one named like a status line) x the eleven states git reports (incl. RM, AM) x --allow-dirty: the spec's fixed-column parser recovers "
          "status and path(s) of every line incl. leading blanks and renames; NoSweep, DirtyBlocksUnlessAllowed, UntrackedOthersInert. Conformance: each status is produced by real git "
          "operations (so the status text is git's own), `update --patch` runs with commit on; the trace spec reads the recorded porcelain lines itself and checks that a blocked update "
          "aborts before modifying anything, that untracked unrelated files never block, and that the bump commit holds only the version change of pattern files."),
    note=_NOTE, ref="DESIGN.md section 6, C11")
CHECKS["C19"] = dict(
    technique="TLA+ spec of config-file selection and init/show (BVConfig, MC_C19) model-checked with TLC + replay of every layout against the real `init --dry; init; show; init`",
    text=("Design level: all 4^5 content-class layouts (absent, empty, unrelated, existing section) of the five config-capable files; the four commands as a machine over the abstract "
          "file system; invariants DryWritesNothing, AppendOnlyOneFile, ShowReadsBack, SecondInitRefuses, ConfiguredFilePreferred and agreement with the declarative InitExpectation. "
          "Conformance (spec -> code): every layout (with LF/CRLF/no-final-newline/commented content and subsets of README.md, README.rst, setup.py) is built and the four commands are "
          "run in process; after each command all bytes are compared; the trace spec checks exit codes, the file written, the byte-prefix clause, the file init names, the version show "
          "reads back and the refusal of the second init against InitExpectation(layout)."),
    note=_NOTE, ref="DESIGN.md section 6, C19")
CHECKS["C18"] = dict(
    technique="TLA+ spec of the meaning of a configuration (BVConfig.Effective, MC_C18) model-checked with TLC + trace validation of real config loads of one abstract configuration in six formats",
    text=("Design level: abstract configurations (booleans absent/true/false, scopes, messages, hooks, file-entry shapes) x six formats x every accepted boolean spelling: the reader model "
          "of each syntax yields Effective(A); tag/push require commit; defaults when absent. Conformance: seeded abstract configurations are written in all six formats with seeded "
          "spellings and quoting, loaded with config.init and projected; the trace spec compares every setting and the set of (file, pattern) pairs with Effective(A) and checks with its "
          "own Search that the pattern attached to the config file matches the file's current_version line; sibling projects differing only in syntax must load and `show` identically."),
    note=_NOTE, ref="DESIGN.md section 6, C18")
CHECKS["C08"] = dict(
    technique="TLA+ level-1 specification of a project under version control (Bumpver.tla) model-checked with TLC (exhaustive small depth + simulation) + replay of the generated behaviours on real git step by step",
    text=("Design level: Bumpver.tla - branches, commit chain, tags, working-tree version texts, date, configured tag scope; actions Update (resolve by scope, Incr, gate, dirty check, rewrite, "
          "commit that git refuses when empty, tag), user commit, unrelated commit, new branch, branch switch - with the invariants Agreement, StrictlyGreater, TagsUnique, "
          "NextUpdatePossible, OneCommitOneTag evaluated in every state; exhaustive to depth 2 for one project and by simulation to depth 8 (thorough 12) for four projects. "
          "Conformance (spec -> code): the behaviours TLC generates are exported through a history variable and replayed against real git repositories and the real CLI; after every step "
          "exit code, start and announced version, config value, both file occurrences, `show`, tag count, tag at HEAD, parent commit and committed paths are compared with the spec state."),
    note=_NOTE, ref="DESIGN.md section 6, C08")
