#!/usr/bin/env python3
"""Regenerate MANIFEST.json from the table below (single source of truth for the registered checks)."""
import json, os
HERE = os.path.dirname(os.path.dirname(os.path.abspath(__file__)))
props = [json.loads(l) for l in open(os.path.join(HERE, "properties.jsonl"))]

# id -> (technique, level text, level note, design_ref)
CHECKS = {}
exec(open(os.path.join(HERE, "tools", "manifest_table.py")).read())

checks = []
na = []
for p in props:
    pid = p["id"]
    if pid in CHECKS:
        c = CHECKS[pid]
        checks.append(dict(
            property_id=pid,
            quick_cmd="./check %s --tier quick" % pid,
            thorough_cmd="./check %s --tier thorough" % pid,
            evidence_file="/verif/evidence/%s.json" % pid,
            replay_cmd_template="./check %s --replay {path}" % pid,
            engine="tla-spec+tlc+conformance",
            level_claimed=dict(category="model_checking", text=c["text"], design_ref=c["ref"]),
            level_note=c["note"],
            technique=c["technique"]))
    else:
        na.append(dict(property_id=pid, reason=NOT_YET.get(pid, "check not built yet in this round; planned with the same technique (see DESIGN.md section 6)")))
m = dict(
    version=1,
    setup_cmd="./setup.sh",
    hooks=dict(guard="BUMPVER_VERIF_TRACE",
               enable="checks set BUMPVER_VERIF_TRACE=<scratch file> in the driving process; bumpver is imported from /repo/src as it is (editable install of /venv)",
               baseline_off_cmd="cd /repo && env -u BUMPVER_VERIF_TRACE /venv/bin/python -m pytest -ra -q -p no:cacheprovider --timeout=900 --continue-on-collection-errors; rc=$?; git -C /repo checkout README.md; exit $rc",
               source_commits=HOOK_COMMITS, add_only=True),
    engines=[dict(name="tla-spec+tlc+conformance", path="/verif/spec, /verif/harness",
                  serves_properties=sorted(CHECKS),
                  kind_free_text="explicit TLA+ specification (spec/*.tla), design instances checked by TLC (spec/mc), trace specifications (spec/trace) validating executions recorded from the real code, and replay of TLC-generated cases into the real code")],
    checks=checks, not_applicable=na,
    notes="All checks: ./check Cxx --tier quick|thorough; honours VERIF_SEED, VERIF_TIER. Exit 0 held / 1 VIOLATION / 2 machinery failure. Known findings: known_findings.json.")
json.dump(m, open(os.path.join(HERE, "MANIFEST.json"), "w"), indent=1)
print("checks:", [c["property_id"] for c in checks], "n/a:", len(na))
