#!/bin/sh
# tools/thorough_all.sh [checks...]: run the thorough tier of the checks one after the other on the unchanged tree and print one summary line each
checks="${*:-C19 C11 C06 C18 C12 C13 C17 C03 C04 C07 C09 C20 C15 C16 C01 C02 C14 C10 C08 C05}"
for c in $checks; do
  start=$(date +%s)
  out=$(timeout 7200 ./check $c --tier thorough 2>&1); rc=$?
  echo "thorough $c rc=$rc $(( $(date +%s) - start ))s $(echo "$out" | grep -v '^State\|^l = ' | tail -1 | cut -c1-220)"
  [ $rc != 0 ] && echo "$out" | grep -E " x |MACHINERY|Traceback|Error" | head -6
done
exit 0
