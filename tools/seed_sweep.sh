#!/bin/sh
# tools/seed_sweep.sh "<seeds>" [checks...]: run the quick tier of the checks with several seeds on the unchanged tree; any non-zero exit is a false alarm or machinery failure to look at
seeds="$1"; shift
checks="${*:-C01 C02 C03 C04 C05 C06 C07 C08 C09 C10 C11 C12 C13 C14 C15 C16 C17 C18 C19 C20}"
for s in $seeds; do for c in $checks; do
  out=$(./check $c --tier quick --seed $s 2>&1); rc=$?
  echo "seed=$s $c rc=$rc $(echo "$out" | grep -v '^State\|^l = ' | tail -1 | cut -c1-200)"
  [ $rc != 0 ] && echo "$out" | grep -E " x |MACHINERY|Traceback|Error" | head -5
done; done
exit 0
