#!/bin/sh
# tools/try_seed_copy.sh <abs patch.diff> <Cxx> [check args...]: run a check against a scratch worktree of /repo's HEAD with the seeded change applied
# (/repo itself is not touched: bumpver is imported from the scratch tree through BUMPVER_SRC / BUMPVER_REPO). The evidence file of the run is discarded.
patch="$1"; prop="$2"; shift 2
wt=$(mktemp -d /tmp/seedcopy.XXXXXX); rmdir "$wt"
git -C /repo worktree add -q --detach "$wt" HEAD || exit 3
( cd "$wt" && git apply "$patch" ) || { echo "patch does not apply"; git -C /repo worktree remove --force "$wt"; exit 3; }
cp /verif/evidence/$prop.json /tmp/evidence.$prop.$$ 2>/dev/null
BUMPVER_SRC="$wt/src" BUMPVER_REPO="$wt" /verif/check "$prop" "$@"; rc=$?
[ -f /tmp/evidence.$prop.$$ ] && mv /tmp/evidence.$prop.$$ /verif/evidence/$prop.json
git -C /repo worktree remove --force "$wt"
echo "exit=$rc"
exit $rc
