#!/bin/sh
# tools/try_seed_copy.sh <abs patch.diff> <Cxx> [check args...]: run a check against a scratch worktree of /repo's HEAD with the seeded change applied
# (/repo itself is not touched: bumpver is imported from the scratch tree through BUMPVER_SRC / BUMPVER_REPO). The evidence file of the run goes to a scratch directory and is discarded.
patch="$1"; prop="$2"; shift 2
wt=$(mktemp -d /tmp/seedcopy.XXXXXX); rmdir "$wt"
evd=$(mktemp -d /tmp/seedev.XXXXXX)
git -C /repo worktree add -q --detach "$wt" HEAD || exit 3
( cd "$wt" && git apply "$patch" ) || { echo "patch does not apply"; git -C /repo worktree remove --force "$wt"; rm -rf "$evd"; exit 3; }
VERIF_EVIDENCE_DIR="$evd" BUMPVER_SRC="$wt/src" BUMPVER_REPO="$wt" /verif/check "$prop" "$@"; rc=$?
git -C /repo worktree remove --force "$wt"
rm -rf "$evd"
echo "exit=$rc"
exit $rc
