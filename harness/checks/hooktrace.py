"""The repository's own tests as trace driver: not a property check of its own (writes no evidence file for a listed property);
`./check hooktrace` shows what the hook traces of the suite contribute.  The thorough tiers of C01, C05, C10, C12 include these events."""
from .. import tlc, drive, hooktrace


def validate(ctx, kinds=("text", "update")):
    events, summary = hooktrace.collect()
    ctx.count("suite_hook_events", len(events))
    ctx.count("suite_summary_" + "".join(c if c.isalnum() else "_" for c in summary)[:60], 1)
    out = []
    if "text" in kinds:
        tev, skipped = hooktrace.to_text_events(events)
        ctx.count("suite_text_events", len(tev))
        ctx.count("suite_events_outside_grammar_or_legacy", skipped)
        if tev:
            fails, st = tlc.validate_events("Trace_Text", [{k: v for k, v in e.items() if k != "dbg"} for e in tev], name="hooktext")
            ctx.add_trace(st)
            by = {e["id"]: e for e in tev}
            out += [(by[f["id"]], f) for f in fails]
    if "update" in kinds:
        uev = hooktrace.to_update_events(events)
        ctx.count("suite_update_events", len(uev))
        if uev:
            fails, st = tlc.validate_events("Trace_Update", [{k: v for k, v in e.items() if k != "dbg"} for e in uev], name="hookupd")
            ctx.add_trace(st)
            by = {e["id"]: e for e in uev}
            out += [(by[f["id"]], f) for f in fails]
    return out


def apply(ctx, kinds, clauses):
    """include the suite's hook traces in a property check: only the clause prefixes that belong to the property count"""
    for e, f in validate(ctx, kinds):
        if f["clause"] in ("incr:refusal", "incr:divergence", "incr:old-unreadable") or not f["clause"].startswith(tuple(clauses)):
            ctx.divergence("suite trace: " + f["clause"], e["dbg"])
        else:
            ctx.violation(dict(clause=f["clause"], source="repository test-suite trace"), case=dict(what=e["dbg"]), expected=f["detail"][:300])


def run(ctx):
    drive.setup(hooks=False)
    for e, f in validate(ctx):
        if f["clause"] in ("incr:refusal", "incr:divergence", "incr:old-unreadable"):
            ctx.divergence(f["clause"], e["dbg"])
        else:
            ctx.violation(dict(clause=f["clause"]), case=dict(what=e["dbg"]), expected=f["detail"][:300])
    ctx.evaluations = ctx.counters.get("suite_text_events", 0) + ctx.counters.get("suite_update_events", 0)
    ctx.rule = "events recorded by the env-guarded hooks while the repository's own test-suite runs on a scratch copy of the current tree"
    ctx.nontriv("a"); ctx.nontriv("b")
    ctx.sample(dict(counters=ctx.counters))
