"""C15 - {pep440_version} always denotes the same version as {version}."""
import os
import random
import datetime as dt
from .. import tlc, drive, glue, corpus, project
from ..core import Machinery


def _lib(job):
    pat, kw, date = job
    from bumpver import v2version, v2patterns, version
    v0 = glue.make_vinfo(date, **kw)
    t = v2version.format_version(v0, pat)
    if not t:
        return None
    try:
        back = v2version.parse_version_info(t, pat)
    except Exception:  # pylint:disable=broad-except
        return None
    dstr = v2patterns.normalize_pattern(pat, "{pep440_version}")
    try:
        DP = glue.parse_pattern(dstr)
    except glue.OutsideGrammar as ex:
        return dict(unclassified=str(ex), pat=pat, dstr=dstr)
    u = v2version.format_version(back, dstr)
    rx = v2patterns.compile_pattern(pat, "{pep440_version}").regexp
    m = rx.match(u)
    return dict(ev="pep", P=glue.parse_pattern(pat), DP=DP, v=glue.state(back), t=glue.cp(t), u=glue.cp(u), printed=glue.cp(version.to_pep440(t)),
                accD=bool(m and m.end() == len(u)), today=drive.TODAY.toordinal(), dbg="%s %s -> %s (derived %s)" % (pat, t, u, dstr), pat=pat, via="library")


def _upd(job):
    """end to end: a file carrying {version} and {pep440_version}; `update` rewrites both; `test` prints the PEP440 line"""
    pat, kw, date, f, nd = job
    from bumpver import v2version, v2patterns
    t0 = v2version.format_version(glue.make_vinfo(date, **kw), pat)
    if not t0 or not v2version.is_valid(t0, pat) or " " in pat:
        return None
    dstr = v2patterns.normalize_pattern(pat, "{pep440_version}")
    try:
        DP = glue.parse_pattern(dstr)
    except glue.OutsideGrammar:
        return None
    u0 = v2version.format_version(v2version.parse_version_info(t0, pat), dstr)
    with drive.scratch_dir("c15") as d:
        proj = project.Project(os.path.join(d, "p"), vcs=None)
        proj.write("bumpver.toml", project.bumpver_toml(t0, pat, [("info.txt", ["ver={version}", "pep={pep440_version}"])]))
        proj.write("info.txt", "header\nver=%s\nmiddle\npep=%s\n" % (t0, u0))
        r = drive.cli(["update"] + glue.cli_flags(f, nd), cwd=proj.root)
        if r.exit != 0:
            return None
        lines = proj.read("info.txt").decode("utf-8", "replace").split("\n")
    t = lines[1][4:]
    u = lines[3][4:]
    r2 = drive.cli(["test", t0, pat] + glue.cli_flags(f, nd))
    printed = r2.pep440() or (r2.new_version() if r2.exit == 0 else None)
    if printed is None or r.new_version() != t:
        return dict(unclassified="update/test disagree or file line not rewritten as expected", pat=pat, dstr=dstr, t=t, announced=r.new_version())
    back = v2version.parse_version_info(t, pat)
    rx = v2patterns.compile_pattern(pat, "{pep440_version}").regexp
    m = rx.match(u)
    return dict(ev="pep", P=glue.parse_pattern(pat), DP=DP, v=glue.state(back), t=glue.cp(t), u=glue.cp(u), printed=glue.cp(printed),
                accD=bool(m and m.end() == len(u)), today=drive.TODAY.toordinal(), dbg="update: %s %s -> %s / %s" % (pat, t0, t, u), pat=pat, via="update")


def _show(job):
    """`show` in a repository whose newest tag is ahead of the configured version: the PEP440 line belongs to the version that is shown"""
    pat, kw, date, kw2 = job
    from bumpver import v2version, v2patterns, version
    from .. import fakevcs
    t0 = v2version.format_version(glue.make_vinfo(date, **kw), pat)
    t1 = v2version.format_version(glue.make_vinfo(date + dt.timedelta(days=400), **kw2), pat)
    if not t0 or not t1 or not v2version.is_valid(t0, pat) or not v2version.is_valid(t1, pat) or " " in pat:
        return None
    try:
        if not version.parse_version(t1) > version.parse_version(t0):
            return None
    except Exception:  # pylint:disable=broad-except
        return None
    dstr = v2patterns.normalize_pattern(pat, "{pep440_version}")
    try:
        DP = glue.parse_pattern(dstr)
    except glue.OutsideGrammar:
        return None
    with drive.scratch_dir("c15s") as d:
        proj = project.Project(os.path.join(d, "p"), vcs="git")
        fv = fakevcs.FakeVCS(os.path.join(d, "fake"))
        fv.set(tags=[t0, t1], tags_branch=[t0, t1], status="", remote="", branches="")
        proj.write("bumpver.toml", project.bumpver_toml(t0, pat, [("info.txt", ["ver={version}"])]))
        proj.write("info.txt", "ver=%s\n" % t0)
        r = drive.cli(["show", "--no-fetch"], cwd=proj.root, env=fv.env())
    shown, printed = r.shown_version(), r.pep440()
    if r.exit != 0 or shown is None or printed is None:
        return dict(unclassified="show failed or printed nothing", pat=pat, dstr=dstr, t=t1, exit=r.exit)
    back = v2version.parse_version_info(shown, pat)
    u = v2version.format_version(back, dstr)
    rx = v2patterns.compile_pattern(pat, "{pep440_version}").regexp
    m = rx.match(u)
    return dict(ev="pep", P=glue.parse_pattern(pat), DP=DP, v=glue.state(back), t=glue.cp(shown), u=glue.cp(u), printed=glue.cp(printed),
                accD=bool(m and m.end() == len(u)), today=drive.TODAY.toordinal(), dbg="show: %s config %s, newest tag %s -> shows %s / %s" % (pat, t0, t1, shown, printed), pat=pat, via="show")


def run(ctx):
    rng = random.Random(ctx.seed)
    drive.setup(hooks=False)
    base = corpus.corpus(random.Random(ctx.seed + 5), ctx.pick(60, 800))
    pats = []
    for p in base:                      # prefix '' or 'v' (the property's quantifier)
        core = p[1:] if p.startswith("v") and not p.startswith("ver-") else p
        if core[:1].isupper() or core[:1].isdigit():
            pats += [core, "v" + core]
    pats += ['MAJOR.0Y.PATCH', 'MAJOR.0G.0V', 'MINOR.0Y.0M', 'vMAJOR.0Y.INC0[-TAG]', 'MAJOR.YYYY.00J', 'vMAJOR.YYYY.0W']   # zero-padded parts after the first component
    # ... followed by the end of an optional group, by a non-optional tag, or glued to the next part
    pats += ['vYYYY.0M[.0D][-TAG]', 'YYYY.0M[.0D]', 'vYYYY.0M-TAG', 'vYYYY.0M0D[-TAG]', 'vMAJOR.0Y0M.PATCH', 'YYYY.0M[.0D[.BUILD]]', 'vYYYY.0W[.00J]']
    pats += ['vMAJOR.MINOR.PATCH[-TAG.NUM]', 'MAJOR.MINOR.PATCH[.PYTAG.NUM]', 'vYYYY.BUILD[-TAG.NUM]']       # a separator between the tag and its number (1.2.3-rc.1)
    pats = list(dict.fromkeys(pats))
    # ---- design
    sel = rng.sample(pats, ctx.pick(40, 300))
    gen = glue.gen_module("Gen_C02", dict(GenPatterns=[glue.parse_pattern(p) for p in sel],
                                          GenDates={dt.date(2021, 1, 4).toordinal(), dt.date(2007, 12, 29).toordinal()}, GenToday=drive.TODAY.toordinal(),
                                          GenNums={0, 9, 10}, GenBuilds={tuple(glue.cp("1001")), tuple(glue.cp("0999"))}, GenTags={"final"}))
    res = tlc.run(tlc.module_text("mc/MC_C15.tla"), "INIT Init\nNEXT Next\nINVARIANT DerivationSatisfiesC15\nCHECK_DEADLOCK FALSE\n", name="MC_C15",
                  workers=16, extra_files={"Gen_C02.tla": gen}, timeout=3400, xmx="12g")
    ctx.add_design(res, "MC_C15 patterns=%d x pool states x all six tags" % len(sel))
    if res.violation:
        clause = [ln for ln in res.stdout.splitlines() if "FAILED-CLAUSE" in ln][:1]
        ctx.violation(dict(clause="design:" + (clause[0] if clause else res.violation)), case=dict(state=res.trace[-1:]), check="design")
    # ---- code -> spec
    jobs = [(pats[i % len(pats)], corpus.random_state_kw(rng), corpus.random_date(rng, 2001, 2098)) for i in range(ctx.pick(6000, 100000))]
    events = [e for e in drive.pmap(_lib, jobs, hooks=False, chunksize=300) if e]
    ujobs = []
    for i in range(ctx.pick(400, 20000)):
        pat = pats[(i * 5) % len(pats)]
        date = corpus.random_date(rng, 2001, 2098)
        ujobs.append((pat, corpus.random_state_kw(rng), date, corpus.random_flags(rng, pat), min(date + dt.timedelta(days=rng.choice([0, 1, 40])), dt.date(2099, 12, 31))))
    events += [e for e in drive.pmap(_upd, ujobs, hooks=False, chunksize=20) if e]
    sjobs = [(pats[(i * 7) % len(pats)], corpus.random_state_kw(rng), corpus.random_date(rng, 2001, 2090), corpus.random_state_kw(rng)) for i in range(ctx.pick(300, 6000))]
    events += [e for e in drive.pmap(_show, sjobs, hooks=False, chunksize=20) if e]
    uncl = [e for e in events if "unclassified" in e]
    events = [e for e in events if "unclassified" not in e]
    import re as _re
    events = [e for e in events if not _re.search(r"[0-9]{10,}", glue.uncp(e["t"]) + " " + glue.uncp(e["u"]))]
    ctx.count("unclassified", len(uncl))
    for u in uncl[:3]:
        ctx.divergence("unclassified case", u)
    for i, e in enumerate(events):
        e["id"] = i + 1
    ctx.count("library_cases", sum(1 for e in events if e["via"] == "library"))
    ctx.count("update_cases", sum(1 for e in events if e["via"] == "update"))
    ctx.count("show_cases", sum(1 for e in events if e["via"] == "show"))
    fails, st = tlc.validate_events("Trace_Text", [{k: v for k, v in e.items() if k not in ("pat", "via")} for e in events], name="C15")
    ctx.add_trace(st)
    by_id = {e["id"]: e for e in events}
    skipped = 0
    for f in fails:
        e = by_id[f["id"]]
        if f["clause"].startswith("skip:"):
            skipped += 1
            continue
        case = dict(pattern=e["pat"], version=glue.uncp(e["t"]), written=glue.uncp(e["u"]), printed=glue.uncp(e["printed"]), via=e["via"], what=e["dbg"])
        if f["clause"] == "pep:derivation-differs":
            ctx.divergence("derived pattern differs from the README derivation (no predicate affected)", case)
            continue
        ctx.violation(dict(clause=f["clause"], s10="s10 |-> TRUE" in f["detail"], glued="glued |-> TRUE" in f["detail"]), case=case, expected=f["detail"])
    ctx.count("version_not_pep440_skipped", skipped)
    pep = len(events) - skipped
    if pep < 0.2 * len(events):
        raise Machinery("vacuous: only %d of %d cases had a PEP 440 valid version text" % (pep, len(events)))
    ctx.evaluations = len(events)
    for e in events:
        ctx.nontriv((e["pat"], tuple(e["t"])))
    ctx.rule = ("(pattern with prefix '' or 'v', read-back state) pairs over the corpus; u obtained from the library (format_version through the code's derived pattern) and "
                "end to end (`update` rewriting a file with both placeholders, `test` printing PEP440); non-trivial = distinct (pattern, version text); "
                "%d cases had a PEP 440 valid version text (the others are outside the property)" % pep)
    for e in events[:3]:
        ctx.sample(dict(what=e["dbg"]))
    ctx.assumptions += ["the code's derived pattern is taken as data (normalize_pattern) and parsed by the glue; derived patterns outside the grammar are counted as unclassified"]
