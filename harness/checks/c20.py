"""C20 - legacy {...} patterns render, read back and increase consistently."""
import os
import re
import random
import datetime as dt
from .. import tlc, drive, glue, project
from ..core import Machinery

# the documented composites and combinations of legacy parts (version patterns); search-only composites are excluded as the property states
PATS = ["{pycalver}", "{semver}", "v{year}{month}{build}{release}", "{year}{month}{build}{release}", "v{year}{build}{release}", "{year}{build}{release}",
        "v{year}.{month}.{dom}", "{year}.{month_short}.{dom_short}", "v{yy}.{month}.{MINOR}", "{year}q{quarter}.{build_no}", "v{year}d{doy}{build}{release}",
        "{year}.{doy_short}.{PATCH}", "{MAJOR}.{MINOR}.{PATCH}-{tag}", "v{MAJOR}.{MM}.{PPP}", "{calver}{build}{release}", "{year}-{month}-{dom}.{bid}",
        "{yyyy}.{BID}-{release_tag}", "{year}.{month_short}.{MINOR}", "v{year}.{quarter}.{PATCH}", "{MAJOR}.{MINOR}.{PATCH}", "{semver}{release}",
        "rel-{year}{month}{build}", "{year}{month}.{PATCH}"]
# the derived search patterns ({pep440_version} in a file pattern is rewritten to one of these according to the version pattern): they are rendered and searched for,
# never read back as versions
DERIVED = ["{pep440_pycalver}", "{pep440_version}", "{year}{month}.{BID}{pep440_tag}", "{year}.{BID}{pep440_tag}", 'version="{pep440_pycalver}"', "pkg-{pep440_version}.tar.gz"]


def parse_pat(s):
    out = []
    for m in re.finditer(r"\{([A-Za-z0-9_]+)\}|([^{]+|\{)", s):
        if m.group(1):
            out.append({"t": "part", "p": m.group(1)})
        else:
            out.append({"t": "lit", "s": glue.cp(m.group(2))})
    return out


def state(v):
    return {k: (glue.cp(val) if k == "bid" else (-1 if val is None else val)) for k, val in v._asdict().items()}


def mk(date, major, minor, patch, bid, tag):
    from bumpver import v1version, version
    return version.V1VersionInfo(**dict(v1version.cal_info(date)._asdict(), major=major, minor=minor, patch=patch, bid=bid, tag=tag))


def _rt(job):
    pat, date, kw = job
    from bumpver import v1version, version
    v = mk(date, **kw)
    t = v1version.format_version(v, pat)
    try:
        back = v1version.parse_version_info(t, pat)
        valid, sb, again = True, state(back), glue.cp(v1version.format_version(back, pat))
    except version.PatternError:
        valid, sb, again = False, {"bad": True}, [0]
    except Exception as ex:  # pylint:disable=broad-except
        valid, sb, again = False, {"bad": True}, [0]
    return dict(ev="rt1", P=parse_pat(pat), v=state(v), text=glue.cp(t), valid=valid, back=sb, again=again, dbg="%s %s" % (pat, t), pat=pat)


def _derived(job):
    """a derived search pattern: what the legacy renderer writes must be found IN FULL by the pattern compiled from the same text"""
    pat, date, kw = job
    from bumpver import v1version, v1patterns
    v = mk(date, **kw)
    t = v1version.format_version(v, pat)
    rx = v1patterns.compile_pattern("{pycalver}", pat).regexp
    m = rx.search(t)
    return dict(ev="derived1", P=parse_pat(pat), v=state(v), text=glue.cp(t), accepted=bool(m and m.group(0) == t), dbg="%s tag=%s -> %s" % (pat, kw["tag"], t), pat=pat)


# what {pep440_version} in a file pattern stands for under each legacy version pattern that has a PEP 440 form (README "Legacy Patterns"; BVLegacy expands the composites)
DERIVED_OF = {"{pycalver}": "{pep440_pycalver}", "v{year}{month}{build}{release}": "{year}{month}.{BID}{pep440_tag}", "{year}{month}{build}{release}": "{year}{month}.{BID}{pep440_tag}",
              "v{year}{build}{release}": "{year}.{BID}{pep440_tag}", "{year}{build}{release}": "{year}.{BID}{pep440_tag}"}


def _derived_of(job):
    """{pep440_version} as the code derives it from a legacy version pattern: what it writes for a state, and whether the pattern it compiled finds that text in full"""
    vp, raw, date, kw = job
    from bumpver import v1version, v1patterns
    v = mk(date, **kw)
    cp_ = v1patterns.compile_pattern(vp, raw)
    t = v1version.format_version(v, cp_.raw_pattern)
    m = cp_.regexp.search(t)
    want = raw.replace("{pep440_version}", DERIVED_OF[vp])
    return dict(ev="derived1", P=parse_pat(want), v=state(v), text=glue.cp(t), accepted=bool(m and m.group(0) == t),
                dbg="%s: %s (derived by the code: %s) tag=%s bid=%s -> %s" % (vp, raw, cp_.raw_pattern, kw["tag"], kw["bid"], t), pat=vp)


def _incr(job):
    pat, date, kw, f, nd, mode = job[:6]
    extra = job[6] if len(job) > 6 else None
    from bumpver import v1version
    v = mk(date, **kw)
    old = v1version.format_version(v, pat)
    args = ["test", old, pat]
    for k in ("major", "minor", "patch"):
        if f[k]:
            args.append("--" + k)
    if f["tag"] != "none":
        args += ["--tag", f["tag"]]
    if f["pin_date"]:
        args.append("--pin-date")
    else:
        args += ["--date", nd.isoformat()]
    if mode == "lib":
        try:
            out = v1version.incr(old, pat, major=f["major"], minor=f["minor"], patch=f["patch"], tag=None if f["tag"] == "none" else f["tag"],
                                 pin_date=f["pin_date"], maybe_date=None if f["pin_date"] else nd)
            o = glue.cp(out) if out else [0]
        except OverflowError:
            o = [0, 0]
        args[0] = "lib:incr"
    else:
        if extra is not None:
            args += extra
        elif (len(old) + date.toordinal()) % 4 == 0:
            args.append("--pin-increments")         # speaks of INC0 / INC1, which legacy patterns do not have: no effect on a legacy bump
        r = drive.cli(args)
        o = glue.cp(r.new_version()) if r.exit == 0 and r.new_version() else ([0, 0] if r.exc and "Overflow" in r.exc else [0])
    return dict(ev="incr1", P=parse_pat(pat), old=glue.cp(old), f=f, date=nd.toordinal(), out=o, lex=(pat == "{pycalver}"),
                dbg=" ".join(args), pat=pat, mode=mode)


def _chain(job):
    """1,000 (quick: 200) bumps through the CLI, each announced version fed back"""
    pat, start, steps, seed = job
    rng = random.Random(seed)
    cur = start
    date = dt.date(2000, 1, 15)
    evs = []
    for _ in range(steps):
        date = min(date + dt.timedelta(days=rng.choice([0, 0, 1, 31, 400])), dt.date(2099, 12, 28))
        args = ["test", cur, pat, "--date", date.isoformat()] + (["--patch"] if "PATCH" in pat or "semver" in pat else [])
        r = drive.cli(args)
        if r.exit != 0:
            evs.append(dict(ev="incr1", P=parse_pat(pat), old=glue.cp(cur), f=dict(major=False, minor=False, patch="--patch" in args, tag="none", pin_date=False),
                            date=date.toordinal(), out=[0, 0] if r.exc and "Overflow" in r.exc else [0], lex=pat == "{pycalver}", dbg="chain " + " ".join(args), pat=pat, mode="cli"))
            break
        out = r.new_version()
        evs.append(dict(ev="incr1", P=parse_pat(pat), old=glue.cp(cur), f=dict(major=False, minor=False, patch="--patch" in args, tag="none", pin_date=False),
                        date=date.toordinal(), out=glue.cp(out), lex=pat == "{pycalver}", dbg="chain " + " ".join(args), pat=pat, mode="cli"))
        cur = out
    return evs


def _dispatch(job):
    """the same legacy pattern through `test`, `update --dry` and `show`: one engine, one answer"""
    pat, date, kw = job
    from bumpver import v1version
    old = v1version.format_version(mk(date, **kw), pat)
    nd = date + dt.timedelta(days=40)
    flags = ["--patch"] if ("PATCH" in pat or "PP" in pat or "semver" in pat) else []
    r1 = drive.cli(["test", old, pat, "--date", nd.isoformat()] + flags)
    with drive.scratch_dir("c20") as d:
        proj = project.Project(os.path.join(d, "p"), vcs=None)
        proj.write("bumpver.toml", project.bumpver_toml(old, pat, [("f.txt", ["{version}"])]))
        proj.write("f.txt", "version: %s\n" % old)
        r2 = drive.cli(["update", "--dry", "--date", nd.isoformat()] + flags, cwd=proj.root)
        r3 = drive.cli(["show"], cwd=proj.root)
        r4 = drive.cli(["update", "--date", nd.isoformat()] + flags, cwd=proj.root)
        content = proj.read("f.txt").decode()
    shown = None
    for ln in r3.stdout.splitlines():
        if ln.startswith("Current Version: "):
            shown = ln[len("Current Version: "):]
    return dict(pat=pat, old=old, test=(r1.exit, r1.new_version()), dry=(r2.exit, r2.new_version()), show=(r3.exit, shown), real=(r4.exit, r4.new_version()), content=content,
                exc=[r.exc for r in (r1, r2, r3, r4) if r.exc])


def run(ctx):
    rng = random.Random(ctx.seed)
    drive.setup(hooks=False)
    # ---- design
    # (the design instance bumps 40 days after each start date: that day must stay inside 2000..2099, where two-digit years are meaningful)
    days = [dt.date(y, m, dd) for y in ctx.pick((2024,), (2000, 2024, 2050, 2098)) for m in ctx.pick((1, 12), (1, 2, 12)) for dd in ctx.pick((1, 13), (1, 13, 28))]
    gen = glue.gen_module("Gen_C20", dict(GenPatterns=[parse_pat(p) for p in PATS], GenDays=set(d.toordinal() for d in days),
                                          GenBids={tuple(glue.cp(b)) for b in ("0001", "0999", "1000", "9998", "12345")}, GenTags={"final", "beta", "rc"},
                                          GenDerived=[parse_pat(p) for p in DERIVED]))
    res = tlc.run(tlc.module_text("mc/MC_C20.tla"), "INIT Init\nNEXT Next\nINVARIANT LegacyConsistent\nINVARIANT DerivedAccepted\nCHECK_DEADLOCK FALSE\n", name="MC_C20", workers=16,
                  extra_files={"Gen_C20.tla": gen}, timeout=3400, xmx="12g")
    ctx.add_design(res, "MC_C20 %d legacy patterns x %d dates x 5 build ids x 3 tags x 64 flag sets" % (len(PATS), len(days)))
    if res.violation:
        clause = [ln for ln in res.stdout.splitlines() if "FAILED-CLAUSE" in ln][:1]
        ctx.violation(dict(clause="design:" + (clause[0] if clause else res.violation)), case=dict(state=res.trace[-1:]), check="design")
    # ---- code -> spec
    def kw():
        return dict(major=rng.choice([0, 1, 9, 10]), minor=rng.choice([0, 1, 9, 10]), patch=rng.choice([0, 1, 9, 100]), bid=rng.choice(["0001", "0999", "1000", "9998", "12345", "0100"]),
                    tag=rng.choice(["final", "final", "alpha", "beta", "rc", "dev", "post"]))
    def rdate():
        return dt.date(rng.randrange(2000, 2099), rng.randrange(1, 13), rng.randrange(1, 29)) if rng.random() < 0.8 else rng.choice([dt.date(2084, 4, 13), dt.date(2024, 2, 29), dt.date(2000, 12, 31), dt.date(2021, 1, 1)])
    jobs = [(PATS[i % len(PATS)], rdate(), kw()) for i in range(ctx.pick(4000, 200000))]
    events = drive.pmap(_rt, jobs, hooks=False, chunksize=200)
    djobs = [(DERIVED[i % len(DERIVED)], rdate(), dict(kw(), tag=["final", "alpha", "beta", "rc", "dev", "post"][(i // len(DERIVED)) % 6])) for i in range(ctx.pick(720, 20000))]
    events += drive.pmap(_derived, djobs, hooks=False, chunksize=200)
    vps = sorted(DERIVED_OF)
    d2jobs = [(vps[i % len(vps)], ['version="{pep440_version}"', "{pep440_version}", "pkg-{pep440_version}.tar.gz"][(i // len(vps)) % 3], rdate(),
               dict(kw(), tag=["final", "alpha", "beta", "rc", "dev", "post"][(i // 15) % 6])) for i in range(ctx.pick(540, 12000))]
    events += drive.pmap(_derived_of, d2jobs, hooks=False, chunksize=200)
    ijobs = []
    for i in range(ctx.pick(4000, 200000)):
        pat = PATS[i % len(PATS)]
        d = rdate()
        f = dict(major=rng.random() < .2 and ("MAJOR" in pat or "semver" in pat), minor=rng.random() < .2 and ("MINOR" in pat or "MM" in pat or "semver" in pat),
                 patch=rng.random() < .3 and ("PATCH" in pat or "PP" in pat or "semver" in pat), tag=rng.choice(["none", "none", "none", "beta", "final", "rc"]), pin_date=rng.random() < .15)
        ijobs.append((pat, d, kw(), f, min(d + dt.timedelta(days=rng.choice([0, 1, 40, 400, -30])), dt.date(2099, 12, 28)), "lib" if i % 2 else "cli"))
    # every tag transition of the two tagged composites within one day, with and without the option that speaks of INC0 / INC1 only
    for pat in ("{pycalver}", "v{year}{build}{release}"):
        for old_tag in ("final", "alpha", "beta", "rc", "dev", "post"):
            for new_tag in ("none", "final", "beta", "rc"):
                for extra in ([], ["--pin-increments"]):
                    d = rdate()
                    ijobs.append((pat, d, dict(kw(), tag=old_tag), dict(major=False, minor=False, patch=False, tag=new_tag, pin_date=False), d, "cli", extra))
    # the documented end of the build number scheme (all digits 9): the legacy engine refuses there, as the new one does - it does not go on with another rule
    for pat in ("{pycalver}", "{year}q{quarter}.{build_no}", "{year}-{month}-{dom}.{bid}", "v{year}{build}{release}"):
        for nines in ("9999", "99999", "9998"):
            for mode in ("cli", "lib"):
                d = rdate()
                ijobs.append((pat, d, dict(kw(), bid=nines), dict(major=False, minor=False, patch=False, tag="none", pin_date=False), d, mode, []))
    events += drive.pmap(_incr, ijobs, hooks=False, chunksize=100)
    cjobs = []
    from bumpver import v1version
    for i, pat in enumerate(["{pycalver}", "{semver}", "v{year}{build}{release}", "{year}.{month_short}.{dom_short}", "{year}.{doy_short}.{PATCH}", "v{year}.{month}.{dom}",
                             "{year}q{quarter}.{build_no}", "v{MAJOR}.{MM}.{PPP}"] * ctx.pick(2, 12)):
        start = v1version.format_version(mk(dt.date(2000, 1, 1), 0, 1, 0, rng.choice(["0001", "0990", "9990"]), "final"), pat)
        cjobs.append((pat, start, ctx.pick(200, 1000), ctx.seed * 31 + i))
    for evs in drive.pmap(_chain, cjobs, hooks=False):
        events += evs
    ctx.count("chains", len(cjobs))
    for i, e in enumerate(events):
        e["id"] = i + 1
    for k in ("rt1", "incr1", "derived1"):
        ctx.count("events_" + k, sum(1 for e in events if e["ev"] == k))
    bumped = sum(1 for e in events if e["ev"] == "incr1" and e["out"][0] != 0)
    ctx.count("bumped", bumped)
    if bumped < 1000:
        raise Machinery("vacuous: only %d bumps produced a version" % bumped)
    fails, st = tlc.validate_events("Trace_Legacy", [{k: v for k, v in e.items() if k not in ("pat", "mode")} for e in events], name="C20")
    ctx.add_trace(st)
    by_id = {e["id"]: e for e in events}
    for f in fails:
        e = by_id[f["id"]]
        if f["clause"] in ("incr1:refusal", "incr1:divergence"):
            ctx.divergence(f["clause"], dict(what=e["dbg"], spec=f["detail"][:80]))
            continue
        if f["clause"] == "incr1:not-greater" and e["f"]["tag"] != "none" and e.get("mode") == "lib":
            ctx.divergence("library incr lowers the version through a tag change (the CLI gate refuses it, C01)", e["dbg"])
            continue
        ctx.violation(dict(clause=f["clause"], pattern=e["pat"], short_part=("dom_short" in e["pat"] or "doy_short" in e["pat"])),
                      case=dict(what=e["dbg"], out=glue.uncp(e["out"]) if e.get("out") and e["out"][0] else None, text=glue.uncp(e["text"]) if "text" in e else None), expected=f["detail"])
    # ---- engine dispatch: test / update / show agree for every legacy pattern
    n_disp = 0
    for r in drive.pmap(_dispatch, [(p, dt.date(2021, 3, 9), dict(major=1, minor=2, patch=3, bid="1001", tag="final")) for p in PATS], hooks=False, chunksize=2):
        n_disp += 1
        t, dry, show, real = r["test"], r["dry"], r["show"], r["real"]
        ok = (t[0] == dry[0] == real[0]) and (t[0] != 0 or (t[1] == dry[1] == real[1] and t[1] in r["content"])) and show == (0, r["old"])
        if not ok:
            ctx.violation(dict(clause="dispatch:engines-disagree", pattern=r["pat"]), case=r)
    ctx.count("dispatch_patterns", n_disp)
    ctx.evaluations = len(events) + n_disp
    for e in events:
        ctx.nontriv((e["pat"], tuple(e.get("text") or e.get("old")), e.get("date", 0)))
    ctx.rule = ("%d documented legacy version patterns x seeded states/dates 2000..2099/build ids/tags: rt1 round trips, incr1 bumps (library and `bumpver test`), CLI chains, "
                "and test/update/show dispatch per pattern; non-trivial = distinct (pattern, text, date)" % len(PATS))
    for e in events[:2] + events[-2:]:
        ctx.sample(dict(what=e["dbg"]))
    ctx.assumptions += ["legacy reading is a prefix match (treated as given, see S15)", "week parts {iso_week}/{us_week} and search-only composites are outside the property"]
