"""C18 - the same configuration means the same thing in every config format."""
import os
import json
import random
import datetime as dt
from .. import tlc, drive, glue, project
from ..core import Machinery

FORMATS = [("setup.cfg", "bumpver", "cfg"), ("setup.cfg", "pycalver", "cfg"), ("pyproject.toml", "tool.bumpver", "toml"), ("bumpver.toml", "bumpver", "toml"),
           (".bumpver.toml", "bumpver", "toml"), ("pycalver.toml", "pycalver", "toml")]
INI_TRUE = ["yes", "true", "1", "on", "Yes", "TRUE", "On", "True"]
INI_FALSE = ["no", "false", "0", "off", "No", "FALSE", "Off", "False"]
MESSAGES = ["bump {old_version} -> {new_version}", "release {new_version}", "chore(release): it's {new_version} \"final\" = 100%", "v{new_version_pep440}; # not a comment", "{new_version}"]
RAW_PATTERNS = ["{version}", 'version = "{version}"', "__version__ = '{version}'", "Copyright (c) 2018-YYYY", "download/{version}.tar.gz", "badge/v{version}-blue", "[aka. {version}]".replace("[", "\\[").replace("]", "\\]")]
VPS = [("MAJOR.MINOR.PATCH", "1.2.3"), ("vYYYY0M.BUILD[-TAG]", "v202101.1001-beta"), ("YYYY.MM[.INC0]", "2021.3")]


def gen_abstract(rng):
    vp, ver = rng.choice(VPS)
    tri = lambda: rng.choice(["absent", "true", "false"])
    commit = tri()
    tag, push = tri(), tri()
    if rng.random() < 0.7 and commit != "true":
        tag = rng.choice(["absent", "false"]); push = rng.choice(["absent", "false"])       # mostly valid configurations
    n_entries = rng.choice([0, 1, 1, 2, 3, 6])
    names = ["README.md", "src/pkg/__init__.py", "src/pkg/about.py", "docs/conf.py", "CHANGES.txt", "a b.txt", "VERSION", "Makefile"]      # file names are case-sensitive option names in INI syntax
    entries = []
    used = rng.sample(names, min(n_entries, len(names)))
    for nme in used:
        pats = rng.sample(RAW_PATTERNS, rng.randrange(1, 5))
        entries.append([nme, pats])
    if rng.random() < 0.25 and any(n.startswith("src/pkg/") for n in used):
        # a glob entry covering the src/pkg files in place of their literal entries
        pats = rng.sample(RAW_PATTERNS, rng.randrange(1, 3))
        entries = [e for e in entries if not e[0].startswith("src/pkg/")] + [["src/pkg/*.py", pats]]
    return dict(version=ver, pattern=vp, commit_message=rng.choice(["absent"] + MESSAGES), tag_message=rng.choice(["absent", "absent"] + MESSAGES),
                tag_scope=rng.choice(["absent", "default", "global", "branch"]), pre=rng.choice(["absent", "absent", "hooks/pre.sh"]), post=rng.choice(["absent", "absent", "hooks/post.sh"]),
                commit=commit, tag=tag, push=push, entries=entries, self_explicit=rng.random() < 0.3,
                self_extra=rng.choice([[], [], ["rel {version}"], ["rel {version}", "badge-{version}-x"]]),
                no_table=rng.random() < 0.5,         # with nothing to list, the file_patterns table may be missing altogether (the key is optional)
                self_glob=rng.random() < 0.15)       # a glob entry (*.toml / *.cfg) that covers the config file, which is not listed literally


def write_config(A, fname, section, syntax, rng):
    """the concretisation Write(A, fmt, sigma): one spelling of A in one syntax"""
    spell = {}
    lines = []
    if syntax == "cfg":
        q = lambda s: ('"%s"' % s) if (rng.random() < 0.5 and '"' not in s) else s
        lines.append("[%s]" % section)
        dl = rng.choice([" = ", " = ", " = ", ": ", "="])          # the INI syntax has two delimiters, with or without blanks around them
        lines.append("current_version%s%s" % (dl, q(A["version"])))
        lines.append("version_pattern%s%s" % (dl, q(A["pattern"])))
        for k in ("commit_message", "tag_message", "tag_scope"):
            if A[k] != "absent":
                lines.append("%s = %s" % (k, q(A[k]) if k != "tag_scope" else A[k]))
        for k, key in (("pre", "pre_commit_hook"), ("post", "post_commit_hook")):
            if A[k] != "absent":
                lines.append("%s = %s" % (key, q(A[k])))
        for k in ("commit", "tag", "push"):
            if A[k] != "absent":
                spell[k] = rng.choice(INI_TRUE if A[k] == "true" else INI_FALSE)
                lines.append("%s = %s" % (k, spell[k]))
        ents = list(A["entries"])
        if ents or A["self_explicit"] or A.get("self_glob") or not A.get("no_table"):
            lines.append("")
            lines.append("[%s:file_patterns]" % section)
        if A["self_explicit"]:
            ents.append([fname, [lines[1].replace(A["version"], "{version}")] + A["self_extra"]])        # spelled like the line it has to match, plus further patterns
        elif A.get("self_glob"):
            ents.append(["*.cfg", ["rel {version}"]])
        for path, pats in ents:
            first_on_key_line = rng.random() < 0.3          # `file = first pattern` with the further patterns on indented lines below it
            lines.append("%s = %s" % (path, pats[0]) if first_on_key_line else "%s =" % path)
            for k, p in enumerate(pats):
                if k == 0 and first_on_key_line:
                    continue
                if k > 0 and rng.random() < 0.25:
                    lines.append("")                      # a blank line between two patterns of one file: layout, not meaning
                lines.append("    " + p)
        cvline = lines[1]
    else:
        lines.append("[%s]" % section)
        lines.append("current_version = %s" % project.toml_str(A["version"]))
        lines.append("version_pattern = %s" % project.toml_str(A["pattern"]))
        for k in ("commit_message", "tag_message", "tag_scope"):
            if A[k] != "absent":
                lines.append("%s = %s" % (k, project.toml_str(A[k])))
        for k, key in (("pre", "pre_commit_hook"), ("post", "post_commit_hook")):
            if A[k] != "absent":
                lines.append("%s = %s" % (key, project.toml_str(A[k])))
        for k in ("commit", "tag", "push"):
            if A[k] != "absent":
                spell[k] = A[k]
                lines.append("%s = %s" % (k, A[k]))
        ents = list(A["entries"])
        if ents or A["self_explicit"] or (A.get("self_glob") and not fname.startswith(".")) or not A.get("no_table"):
            lines.append("")
            lines.append("[%s.file_patterns]" % section)
        if A["self_explicit"]:
            ents.append([fname, ['current_version = "{version}"'] + A["self_extra"]])
        elif A.get("self_glob") and not fname.startswith("."):
            ents.append(["*.toml", ["rel {version}"]])
        for path, pats in ents:
            if len(pats) > 1 and rng.random() < 0.25:       # the array over several lines, with a blank line in it
                lines.append('%s = [\n    %s,\n]' % (project.toml_str(path), ",\n\n    ".join(project.toml_str(p) for p in pats)))
            else:
                lines.append('%s = [%s]' % (project.toml_str(path), ", ".join(project.toml_str(p) for p in pats)))
        cvline = lines[1]
    # what precedes the section: nothing, a comment, or sections of OTHER tools (bump2version's [bumpversion] with a current_version line of its own, [tool.black], ...)
    if syntax == "cfg":
        foreign = ["[bumpversion]\ncurrent_version = 9.9.9\ncommit = True\n\n[bumpversion:file:setup.py]\n\n", "[metadata]\nname = demo\n\n", "[pycalverx]\ncurrent_version = 9.9.9\n\n"]
    else:
        foreign = ['[bumpversion]\ncurrent_version = "9.9.9"\n\n', "[tool.black]\nline-length = 100\n\n", '[tool.bumpversion]\ncurrent_version = "9.9.9"\n\n']
    prefix = rng.choice(["", "", "# project configuration\n\n"] + foreign)
    return prefix + "\n".join(lines) + "\n", cvline


def project_cfg(cfg, cfgfile):
    from bumpver import v2patterns
    files = []
    self_pats = []
    for path, pats in cfg.file_patterns.items():
        for p in pats:
            if path == cfgfile:
                self_pats.append(p.raw_pattern)
            else:
                files.append([path, p.raw_pattern])
    return dict(valid=True, version=cfg.current_version, pattern=cfg.version_pattern, commit_message=cfg.commit_message, tag_message=cfg.tag_message, tag_scope=cfg.tag_scope.value,
                pre=cfg.pre_commit_hook, post=cfg.post_commit_hook, commit=bool(cfg.commit), tag=bool(cfg.tag), push=bool(cfg.push), files=sorted(files)), self_pats


def load_case(job):
    A, fmt_idx, seed = job
    rng = random.Random(seed)
    fname, section, syntax = FORMATS[fmt_idx]
    from bumpver import config
    with drive.scratch_dir("c18") as d:
        proj = project.Project(os.path.join(d, "p"), vcs=None)
        text, cvline = write_config(A, fname, section, syntax, rng)
        proj.write(fname, text)
        for nme in ["README.md", "src/pkg/__init__.py", "src/pkg/about.py", "docs/conf.py", "CHANGES.txt", "a b.txt", "VERSION", "Makefile", "hooks/pre.sh", "hooks/post.sh"]:
            proj.write(nme, "x\n")
        cwd = os.getcwd()
        os.chdir(proj.root)
        try:
            _ctx, cfg = config.init(project_path=".")
        except Exception as ex:  # pylint:disable=broad-except
            cfg = None
        finally:
            os.chdir(cwd)
        r = drive.cli(["show", "--no-fetch"], cwd=proj.root)
    # the expected (file, pattern) pairs: entries expanded over the files that exist, {version} standing for the version pattern
    exp_files = []
    for path, pats in A["entries"]:
        targets = ["src/pkg/__init__.py", "src/pkg/about.py"] if path == "src/pkg/*.py" else [path]
        for t in targets:
            for p in pats:
                exp_files.append([t, p.replace("{version}", A["pattern"])])
    merged = {}
    for t, p in exp_files:
        merged.setdefault(t, []).append(p)
    absA = dict(version=A["version"], pattern=A["pattern"], commit_message=A["commit_message"], tag_message=A["tag_message"], tag_scope=A["tag_scope"], pre=A["pre"], post=A["post"],
                commit=A["commit"], tag=A["tag"], push=A["push"], files=[[t, ps] for t, ps in merged.items()])
    if cfg is None:
        loaded, self_asts, selfp = dict(valid=False), [], []
    else:
        loaded, selfp = project_cfg(cfg, fname)
        self_asts = []
        for sp_ in selfp:
            try:
                self_asts.append(glue.parse_pattern(sp_, file_pattern=True))
            except glue.OutsideGrammar:
                pass
    selfwant = [glue.cp(p.replace("{version}", A["pattern"])) for p in A["self_extra"]] if A["self_explicit"] else []
    if A.get("self_glob") and not A["self_explicit"] and not fname.startswith("."):
        selfwant = [glue.cp("rel " + A["pattern"])]
    # the line as it will read after a bump (another legal version of the pattern in place of the current one)
    extra = {}
    try:
        from bumpver import v2version
        nxt = v2version.incr(A["version"], A["pattern"], major="MAJOR" in A["pattern"], maybe_date=dt.date(2031, 7, 9))
        if nxt and nxt != A["version"] and cvline.count(A["version"]) == 1:
            extra["cvline2"] = glue.cp(cvline.replace(A["version"], nxt))
    except Exception:  # pylint:disable=broad-except
        pass
    return dict(extra, ev="load", A=absA, fmt=fname + "[" + section + "]", loaded=loaded, cfgfile=fname, self=self_asts, selfwant=selfwant, selfraw=[glue.cp(p) for p in selfp], cvline=glue.cp(cvline), show_exit=r.exit, show_out=r.stdout,
                group=json.dumps(A, sort_keys=True), dbg="%s [%s]: %s" % (fname, section, {k: v for k, v in A.items() if v not in ("absent", [], False)}), text=text)


def run(ctx):
    drive.setup(hooks=False)
    res = tlc.run(tlc.module_text("mc/MC_C18.tla"), "INIT Init\nNEXT Next\nINVARIANT FormatIndependent\nINVARIANT TagPushRequireCommit\nINVARIANT DefaultsWhenAbsent\nCHECK_DEADLOCK FALSE\n",
                  name="MC_C18", workers=16, timeout=3000, xmx="8g")
    ctx.add_design(res, "MC_C18 abstract configurations (3^3 booleans x 5 scopes x messages x hooks x 4 file shapes) x 6 formats x every boolean spelling")
    if res.violation:
        ctx.violation(dict(clause="design:" + res.violation), case=dict(state=res.trace[-1:]), check="design")
    rng = random.Random(ctx.seed)
    jobs = []
    for i in range(ctx.pick(500, 50000)):
        A = gen_abstract(rng)
        for f in range(len(FORMATS)):
            jobs.append((A, f, ctx.seed * 18000041 + i * 7 + f))
    events = drive.pmap(load_case, jobs, hooks=False, chunksize=30)
    for i, e in enumerate(events):
        e["id"] = i + 1
    fails, st = tlc.validate_events("Trace_Config", [{k: v for k, v in e.items() if k not in ("dbg", "group", "show_exit", "show_out", "text")} for e in events], name="C18")
    ctx.add_trace(st)
    by_id = {e["id"]: e for e in events}
    for f in fails:
        e = by_id[f["id"]]
        ctx.violation(dict(clause=f["clause"], format=e["fmt"]), case=dict(what=e["dbg"], config_text=e["text"], loaded=e["loaded"]), expected=f["detail"][:400])
    # sibling projects differing only in syntax: the loaded settings and what `show` prints must be identical (this also covers {pep440_version} patterns)
    groups = {}
    for e in events:
        groups.setdefault(e["group"], []).append(e)
    n_groups = 0
    for g, es in groups.items():
        n_groups += 1
        ref = es[0]
        for e in es[1:]:
            if e["loaded"] != ref["loaded"] or e["show_exit"] != ref["show_exit"] or e["show_out"] != ref["show_out"]:
                ctx.violation(dict(clause="siblings-differ", formats=sorted([ref["fmt"], e["fmt"]])), case=dict(what=e["dbg"], a=ref["loaded"], b=e["loaded"], a_text=ref["text"], b_text=e["text"]))
    ctx.count("abstract_configurations", n_groups)
    ctx.count("loads", len(events))
    ctx.count("valid_loads", sum(1 for e in events if e["loaded"]["valid"]))
    if sum(1 for e in events if e["loaded"]["valid"]) < 0.4 * len(events):
        raise Machinery("vacuous: too few valid loads")
    ctx.evaluations = len(events)
    for e in events:
        ctx.nontriv((e["group"], e["fmt"]))
    ctx.rule = ("seeded abstract configurations (booleans absent/true/false in every accepted spelling, quoted and unquoted strings, messages with inner quotes/=/#/%, hooks, all tag scopes, "
                "0..6 file entries x 1..4 patterns, glob entries, explicit or implicit entry for the config file) each written in all six formats and loaded with config.init; "
                "non-trivial = distinct (configuration, format)")
    for e in events[:2]:
        ctx.sample(dict(what=e["dbg"], text=e["text"][:300]))
    ctx.assumptions += ["strings do not begin or end with a quote character or blank (not expressible in the INI syntax; the TOML reader strips them too: observation S13)",
                        "file patterns avoid {pep440_version} in the comparison with Effective(A) (covered by the sibling comparison and by C15)"]
