"""C12 - messages, tag names and paths reach the VCS verbatim."""
import os
import random
from .. import tlc, drive, glue, project, fakevcs
from ..core import Machinery

OLD, NEW = "v1.2.3-beta", "v1.2.4-beta"
VP = "vMAJOR.MINOR.PATCH[-TAG]"
HOSTILE = ["'", '"', "\\", " ", "100%", "%%", "%(asctime)s", "$HOME", "`id`", "-", "--amend", "\n", "é", "e\u0301", "\u212b", "☃", ";", "&&", "|", "#", "%s", "~", "*", "(", ")", "!", "\t", "''", "' --amend '", "$(x)",
           "\\n", "C:\\new_dir\\notes", "\\t", "\\\\n", "\\x41", "\\u00e9", "\\0"]       # escape sequences as literal text: a backslash and a letter
WORDS = ["bump", "version", "release", "to", "from", "OLD", "NEW", "xOLD", "NEWx", "{new_version}", "{old_version}", "{new_version_pep440}", "{old_version_pep440}", "{{", "}}", "v"]


def gen_template(rng, cli):
    n = rng.randrange(1, 8)
    parts = [rng.choice(WORDS) if rng.random() < 0.55 else rng.choice(HOSTILE) for _ in range(n)]
    t = rng.choice(["", " "]).join(parts) if rng.random() < 0.3 else " ".join(parts)
    if not cli:
        # the config layer strips quote characters and blanks at both ends of a string (finding S13, property C18): keep them inside
        t = "m " + t + " m"
    # the shorthand's word boundary next to a non-ASCII symbol depends on Unicode categories the spec does not model: keep them apart
    import re
    t = re.sub(r"([^\x00-\x7f])(OLD|NEW)", r"\1 \2", t)
    t = re.sub(r"(OLD|NEW)([^\x00-\x7f])", r"\1 \2", t)
    if cli and t.startswith("-"):
        t = "x" + t
    return t


def gen_name(rng, i):
    base = rng.choice(["file", "a b", "it's", 'q"uote', "back\\slash", "$HOME", "`tick`", "-dash", "--amend", "ünï", "cafe\u0301", "\u1100\u1161\u11a8", "\u212bngstrom", "semi;colon", "amp&amp", "paren(1)", "hash#1", "per%cent", "til~de", "x' y"])
    return "%s_%d.txt" % (base, i)


def case(job):
    seed, tool = job
    rng = random.Random(seed)
    cli_c, cli_t = rng.random() < 0.6, rng.random() < 0.6
    tc, tt = gen_template(rng, cli_c), gen_template(rng, cli_t)
    names = [gen_name(rng, i) for i in range(rng.randrange(1, 4))]
    light = rng.random() < 0.15
    # the boundary template: an EMPTY template given on the command line overrides a non-empty configured one (the configured one is a distractor
    # that must not reach the VCS): an empty commit message, and no tag message at all = a lightweight tag
    empty_c = cli_c and rng.random() < 0.12
    empty_t = cli_t and not light and rng.random() < 0.12
    if empty_c:
        tc = ""
    if empty_t:
        tt = ""
    # one project in seven keeps its config in a TOML file with CRLF line endings in which the commit message is a multi-line string ("""...""", two paragraphs)
    crlf_ml = seed % 7 == 4 and not cli_c and seed % 3 != 1 and not any(c in tc for c in "\\\"'#\n\t")          # (the third-party reader itself mishandles quotes and # inside such strings)
    if crlf_ml:
        tc = tc + "\n\nsecond paragraph {old_version}"
    # in a quarter of the git projects a version tag is AHEAD of the configured version: the old version of the placeholders is the tag's
    tag_ahead = tool == "git" and seed % 4 == 3
    old, new, oldpep, newpep = ("v1.2.7-beta", "v1.2.8-beta", "1.2.7b0", "1.2.8b0") if tag_ahead else (OLD, NEW, "1.2.3b0", "1.2.4b0")
    # one run in six gives the new version with --set-version in a valid but non-canonical spelling (a tag spelled out at its default, a leading zero):
    # the announced version - and so the tag name and the placeholders - is the text as given
    setver = None
    if seed % 6 == 5:
        setver, newpep = [("v1.3.0-final", "1.3.0"), ("v1.03.0-beta", "1.3.0b0"), ("v1.3.00-rc", "1.3.0rc0")][(seed // 6) % 3]
        new = setver
    with drive.scratch_dir("c12") as d:
        proj = project.Project(os.path.join(d, "p"), vcs=tool, gitfile=(seed % 5 == 2))
        fv = fakevcs.FakeVCS(os.path.join(d, "fake"), tool)
        if tool == "git":
            fv.set(tags=["v1.2.7-beta", "v1.0.0"] if tag_ahead else [], status="", branches="* main 1234abc [origin/main] msg\n", remote="")
        else:
            fv.set(tags=[], status="", remote="default = https://example.com/r\n")
        extra = {}
        if not cli_c:
            extra["commit_message"] = tc
        elif empty_c:
            extra["commit_message"] = "configured commit message {new_version} that the command line overrides"
        if not cli_t or light:
            extra["tag_message"] = "" if light else tt
        elif empty_t:
            extra["tag_message"] = "configured tag message {new_version} that the command line overrides"
        # a third of the projects keep their configuration in setup.cfg (INI syntax: one-line values; the reader must hand them on untouched - a % is just a %)
        use_cfg = seed % 3 == 1 and not any("\n" in v for v in extra.values())
        if use_cfg:
            proj.write("setup.cfg", project.setup_cfg(OLD, VP, [(n, ["{version}"]) for n in names], commit=True, tag=True, push=True, extra=extra, quote=False))
        else:
            text = project.bumpver_toml(OLD, VP, [(n, ["{version}"]) for n in names], commit=True, tag=True, push=True, extra=extra)
            if crlf_ml:
                one_line = "commit_message = " + project.toml_str(tc)
                if text.count(one_line) != 1:
                    raise Machinery("C12: cannot place the multi-line commit message")
                text = text.replace(one_line, 'commit_message = """\n' + tc + '"""').replace("\n", "\r\n")
            proj.write("bumpver.toml", text)
        for n in names:
            proj.write(n, "version %s\n" % OLD)
        args = ["update", "--no-fetch"] + (["--set-version", setver] if setver else ["--patch"])
        if cli_c:
            args += ["--commit-message", tc]
        if cli_t and not light:
            args += ["--tag-message", tt]
        r = drive.cli(args, cwd=proj.root, env=fv.env())
        raw = fv.log()
        filemsg = fv.hg_commit_message()
    kw = dict(old=glue.cp(old), new=glue.cp(new), oldpep=glue.cp(oldpep), newpep=glue.cp(newpep))
    evs = []
    added = []
    for e in raw:
        if e[0] != "cmd" or e[1] not in ("add_path", "commit", "tag", "tag_light", "push_tag", "push"):
            continue
        argv = e[2]
        ev = dict(ev="argv", tool=tool, name=e[1], argv=[glue.cp(a) for a in argv], values={}, template=[], cli=False, kw=kw, filemsg=[])
        if e[1] == "add_path":
            path = argv[-1]
            added.append(path)
            ev["values"] = dict(path=glue.cp(path))
            ev["expect_path_in"] = True
        elif e[1] == "commit":
            ev.update(template=glue.cp(tc), cli=cli_c)
            if tool == "hg":
                ev["values"] = dict(logfile=glue.cp(argv[-1]))
                ev["filemsg"] = glue.cp(filemsg or "")
        elif e[1] == "tag":
            ev.update(template=glue.cp(tt), cli=cli_t and not light, values=dict(tag=glue.cp(new)))
        elif e[1] == "tag_light":
            ev["values"] = dict(tag=glue.cp(new))
        elif e[1] == "push_tag":
            ev["values"] = dict(tag=glue.cp(new), remote=glue.cp("origin"))
        elif e[1] == "push":
            ev["values"] = dict(remote=glue.cp("origin"))
        ev["dbg"] = "%s %s argv=%r | commit tmpl(%s)=%r tag tmpl(%s)=%r files=%r" % (tool, e[1], argv, "cli" if cli_c else "cfg", tc, "cli" if cli_t else "cfg", tt, names)
        evs.append(ev)
    facts = dict(cfgfile="setup.cfg" if use_cfg else "bumpver.toml", unknown_cmds=[e[2] for e in raw if e[0] == "cmd" and e[1] == "unknown"], seed=seed, tool=tool, exit=r.exit, exc=r.exc or "", names=names, added=sorted(added), tc=tc, tt=tt, cli_c=cli_c, cli_t=cli_t, light=light,
                 empty_cli_template=empty_c or empty_t, annotated_tag_despite_empty_template=(light or empty_t) and any(e["name"] == "tag" for e in evs),
                 n_cmds=len(evs), quote=any(q in (tc + tt + "".join(names)) for q in "'\"\\"))
    return evs, facts


def real_case(job):
    """the same on a real git repository: what `git log` / `git tag` / `git show` report afterwards"""
    import re
    import subprocess as sp
    seed = job
    rng = random.Random(seed)
    genv = dict(GIT_AUTHOR_NAME="t", GIT_AUTHOR_EMAIL="t@e", GIT_COMMITTER_NAME="t", GIT_COMMITTER_EMAIL="t@e", GIT_CONFIG_GLOBAL="/dev/null", GIT_CONFIG_SYSTEM="/dev/null")

    def git(cwd, *args):
        return sp.run(["git"] + list(args), cwd=cwd, stdout=sp.PIPE, stderr=sp.PIPE, check=True, env=dict(os.environ, **genv)).stdout.decode("utf-8")

    def clean(t):       # git tidies messages (trailing blanks, blank lines, '#' lines under some modes): keep the sample clear of that
        t = re.sub(r"\s+", " ", t).strip()
        return ("m" + t) if (not t or t.startswith("#")) else t
    cli_c, cli_t = rng.random() < 0.5, rng.random() < 0.5
    tc, tt = clean(gen_template(rng, cli_c)), clean(gen_template(rng, cli_t))
    names = [n for n in (gen_name(rng, i) for i in range(rng.randrange(1, 4)))]
    with drive.scratch_dir("c12r") as d:
        root = os.path.join(d, "p")
        os.makedirs(root)
        git(root, "init", "-q", "-b", "main")
        proj = project.Project(root, vcs=None)
        extra = {}
        if not cli_c:
            extra["commit_message"] = tc
        if not cli_t:
            extra["tag_message"] = tt
        proj.write("bumpver.toml", project.bumpver_toml(OLD, VP, [(n, ["{version}"]) for n in names], commit=True, tag=True, push=False, extra=extra))
        for n in names:
            proj.write(n, "version %s\n" % OLD)
        git(root, "add", "-A"); git(root, "commit", "-q", "-m", "init")
        args = ["update", "--patch", "--no-fetch"] + (["--commit-message", tc] if cli_c else []) + (["--tag-message", tt] if cli_t else [])
        r = drive.cli(args, cwd=root, env=genv)
        evs = []
        kw = dict(old=glue.cp(OLD), new=glue.cp(NEW), oldpep=glue.cp("1.2.3b0"), newpep=glue.cp("1.2.4b0"))
        committed = []
        if r.exit == 0:
            cm = git(root, "log", "-1", "--format=%B")
            tm = git(root, "tag", "-l", "--format=%(contents)", NEW)
            committed = [x for x in git(root, "show", "--name-only", "--format=", "-z", "HEAD").split("\0") if x.strip("\n")]
            evs.append(dict(ev="msg", template=glue.cp(tc), cli=cli_c, kw=kw, message=glue.cp(cm.rstrip("\n")), dbg="REAL GIT commit message tmpl(%s)=%r got %r" % ("cli" if cli_c else "cfg", tc, cm)))
            evs.append(dict(ev="msg", template=glue.cp(tt), cli=cli_t, kw=kw, message=glue.cp(tm.rstrip("\n")), dbg="REAL GIT tag message tmpl(%s)=%r got %r" % ("cli" if cli_t else "cfg", tt, tm)))
    return evs, dict(seed=seed, exit=r.exit, exc=r.exc or "", names=names, committed=committed, tc=tc, tt=tt)


def run(ctx):
    drive.setup(hooks=False)
    n_design = ctx.pick(3, 4)
    res = tlc.run(tlc.module_text("mc/MC_C12.tla"), "INIT Init\nNEXT Next\nCONSTANT N = %d\nINVARIANT OneArgument\nINVARIANT NoPlaceholderLeft\nINVARIANT ShorthandOnlyWords\n"
                  "INVARIANT LiteralsKept\nCHECK_DEADLOCK FALSE\n" % n_design, name="MC_C12", workers=16, timeout=3000, xmx="8g")
    ctx.add_design(res, "MC_C12 templates over 15 symbols up to length %d x {config, command line}" % n_design)
    if res.violation:
        ctx.violation(dict(clause="design:" + res.violation), case=dict(state=res.trace[-1:]), check="design")
    n = ctx.pick(1200, 50000)
    jobs = [(ctx.seed * 12000017 + i, "hg" if i % 4 == 0 else "git") for i in range(n)]
    results = drive.pmap(case, jobs, hooks=False, chunksize=10)
    events = []
    for evs, f in results:
        events += evs
    real = drive.pmap(real_case, [ctx.seed * 12000029 + i for i in range(ctx.pick(30, 600))], hooks=False, chunksize=2)
    for evs, f in real:
        events += evs
        if f["exit"] == 0 and sorted(c.strip("\n") for c in f["committed"]) != sorted(f["names"] + ["bumpver.toml"]):
            ctx.violation(dict(clause="argv:committed-paths-differ-from-configured (real git)"), case=f)
    ctx.count("real_git_runs", len(real))
    for i, e in enumerate(events):
        e["id"] = i + 1
    fails, st = tlc.validate_events("Trace_Update", [{k: v for k, v in e.items() if k not in ("dbg", "expect_path_in")} for e in events], name="C12")
    ctx.add_trace(st)
    by_id = {e["id"]: e for e in events}
    skipped = 0
    for f in fails:
        e = by_id[f["id"]]
        if f["clause"].startswith("skip:"):
            skipped += 1
            continue
        ctx.violation(dict(clause=f["clause"], command=e.get("name", "real git: message read back"), tool=e.get("tool", "git")), case=dict(what=e["dbg"]), expected=f["detail"][:300])
    crashed = 0
    for _evs, f in results:
        if f.get("unknown_cmds"):
            ctx.violation(dict(clause="argv:unknown-vcs-command"), case=f)
        if f.get("annotated_tag_despite_empty_template"):
            ctx.violation(dict(clause="argv:tag-message-added (the given tag message template is empty: lightweight tag expected)", empty_cli_template=f["empty_cli_template"]), case=f)
        complete = f["exit"] == 0
        if f["exc"] and "SystemExit" not in f["exc"]:
            crashed += 1
            bad_tmpl = any(x in f["exc"] for x in ("KeyError", "IndexError", "Single '}'", "Single '{'", "unmatched '{'", "expected '}'", "Max string recursion", "Replacement index"))
            if bad_tmpl:
                continue          # a template outside the documented placeholders is refused before anything is staged
            ctx.violation(dict(clause="argv:crash-while-building-command", has_quote_or_backslash=f["quote"], exc=f["exc"].split(":")[0]), case=f)
        elif complete and sorted(f["added"]) != sorted(f["names"] + [f["cfgfile"]]) and sorted(f["added"]) != sorted(f["names"]):
            ctx.violation(dict(clause="argv:staged-paths-differ-from-configured"), case=f)
    ctx.count("runs", len(results))
    ctx.count("runs_with_empty_cli_template", sum(1 for _e, f in results if f["empty_cli_template"]))
    ctx.count("runs_completed", sum(1 for _e, f in results if f["exit"] == 0))
    ctx.count("argv_events", len(events))
    ctx.count("skipped_templates", skipped)
    if sum(1 for _e, f in results if f["exit"] == 0) < 0.3 * len(results):
        raise Machinery("vacuous: only %d of %d runs completed" % (sum(1 for _e, f in results if f["exit"] == 0), len(results)))
    if not ctx.quick:
        from . import hooktrace as _ht
        _ht.apply(ctx, ("update",), ("shape:",))      # the repository's own tests, recorded through the hooks
    ctx.evaluations = len(events)
    for e in events:
        ctx.nontriv(e["dbg"])
    ctx.rule = ("seeded runs of the real `update` (commit, tag, push on; fake git, every 4th fake hg) with commit/tag message templates from the config or the command line built from "
                "hostile symbols (quotes, backslash, $, backticks, leading dashes, newline, non-ASCII in composed and decomposed form), documented placeholders, OLD/NEW shorthand and near-misses, the empty template on the command line over a non-empty configured one, and 1..3 configured "
                "files with hostile names; one `argv` event per mutating VCS command; non-trivial = distinct (command, argv)")
    for e in events[:3]:
        ctx.sample(dict(what=e["dbg"][:300]))
    ctx.assumptions += ["file names without a newline: such a file cannot be configured at all (`File does not exist`, observation S21), so nothing reaches the VCS", "argv is what a fake git/hg receives (NUL separated record); hg's message is read from the --logfile file", "config-sourced templates avoid quote/blank at both ends (config reader strips them: S13 under C18)"]
