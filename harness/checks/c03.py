"""C03 - after an update no configured occurrence is left stale.  (The runner is shared with C04.)"""
import os
import sys
import json
import random
import subprocess as sp
from .. import tlc, drive, glue, layouts, project
from ..core import Machinery

DESIGN_CFG = ("INIT Init\nNEXT Next\nCONSTANTS NLines = %d\n NText = %d\n S2 = %s\n S20 = %s\nINVARIANT NoStaleOccurrence\nINVARIANT OnlySpansChange\nINVARIANT MissingPatternRefused\n"
              "INVARIANT DiffRoundTrip\nINVARIANT SplitJoinIdentity\nINVARIANT SepPrecedence\nCHECK_DEADLOCK FALSE\n")


SELFTEST_CFG = "INIT Init\nNEXT Next\nCONSTANTS NLines = %d\n NText = %d\n S2 = %s\n S20 = %s\nINVARIANT NoStaleOccurrence\nCHECK_DEADLOCK FALSE\n"


def design(ctx):
    nl, nt = ctx.pick((3, 7), (4, 9))
    res = tlc.run(tlc.module_text("mc/MC_C03.tla"), DESIGN_CFG % (nl, nt, "FALSE", "FALSE"), name="MC_C03", workers=16, timeout=3400, xmx="12g")
    ctx.add_design(res, "MC_C03 layouts of up to %d lines x 13 line kinds x 3 separators x trailing; all texts over {a,CR,LF} up to %d" % (nl, nt))
    if res.violation:
        ctx.violation(dict(clause="design:" + res.violation), case=dict(state=res.trace[-1:]), check="design")
    # self-test of the invariants: the repaired defect S2 must be rejected by NoStaleOccurrence
    res2 = tlc.run(tlc.module_text("mc/MC_C03.tla"), SELFTEST_CFG % (2, 1, "TRUE", "FALSE"), name="MC_C03", workers=4, timeout=600)
    if res2.violation != "NoStaleOccurrence":
        raise Machinery("MC_C03 self-test: the last-match-wins variant was not rejected (%s)" % (res2.violation or res2.error))
    # ... and so must the repaired defect S20 (a match touching an earlier one is suppressed)
    res3 = tlc.run(tlc.module_text("mc/MC_C03.tla"), SELFTEST_CFG % (2, 1, "FALSE", "TRUE"), name="MC_C03", workers=4, timeout=600)
    if res3.violation != "NoStaleOccurrence":
        raise Machinery("MC_C03 self-test: the touching-match-suppressed variant was not rejected (%s)" % (res3.violation or res3.error))
    ctx.count("design_selftest_rejected_variants", 2)


def run_layout(job):
    """materialise one generated layout, run the real `update` (commit off), return rewrite events and black-box facts"""
    seed, opts = job
    rng = random.Random(seed)
    lay = layouts.generate(rng, **opts.get("gen", {}))
    locale_c = opts.get("locale_c", False)
    with drive.scratch_dir("lay") as d:
        proj = lay.materialize(os.path.join(d, "p"))
        before = proj.snapshot(with_mtime=True)
        if locale_c:
            env = dict(os.environ, LC_ALL="C", LANG="C", PYTHONUTF8="0", PYTHONCOERCECLOCALE="0", PYTHONPATH=os.environ.get("BUMPVER_SRC", ""))
            env.pop("BUMPVER_VERIF_TRACE", None)
            p = sp.run([sys.executable, "-m", "bumpver", "update"] + lay.flags, cwd=proj.root, env=env, stdout=sp.PIPE, stderr=sp.PIPE)
            exit_code = p.returncode
            err = p.stderr.decode("utf-8", "replace")
            new = None
            for ln in err.splitlines():
                if "New Version: " in ln:
                    new = ln.split("New Version: ", 1)[1].strip()
            exc = err[-300:] if "Traceback" in err else None
        else:
            r = drive.cli(["update"] + ([["-v"], ["-vv"]][seed % 2] if seed % 7 == 0 else []) + lay.flags, cwd=proj.root)
            exit_code, new, exc = r.exit, r.new_version(), r.exc
        after = proj.snapshot(with_mtime=True)
    b = {k: v[0] for k, v in before.items()}
    a = {k: v[0] for k, v in after.items()}
    evs = layouts.file_events(lay, b, a, exit_code, new)
    for e_ in evs:
        e_["prop"] = "C03"          # (the trace spec then also asks C03's own question of a file whose rewrite went wrong in C04's terms)
    # the config file itself: current_version must equal the announced version (black box, no spec operator needed)
    cfg_after = a.get(lay.cfg_format, b"").decode("utf-8", "replace")
    facts = dict(seed=seed, vp=lay.vp, old=lay.old_version, new=new, exit=exit_code, exc=exc, flags=lay.flags, locale_c=locale_c,
                 cfg_has_new=(new is not None and ('current_version = "%s"' % new) in cfg_after and (not lay.cfg_glob or ("# note: %s\r\n" % new if lay.cfg_crlf else "# note: %s\n" % new) in cfg_after) and (("\r\n" in cfg_after and "\n" not in cfg_after.replace("\r\n", "")) if lay.cfg_crlf else "\r" not in cfg_after)),
                 cfg_glob=lay.cfg_glob,
                 untouched_changed=[k for k in lay.unconfigured if before.get(k) != after.get(k)],
                 extra_files=sorted(set(a) - set(b)), n_files=len(lay.files),
                 shared_lines=sum(1 for occ in lay.occ.values() for ln in set(o[0] for o in occ) if len([o for o in occ if o[0] == ln]) > 1))
    for e in evs:
        e["seed"] = seed
        e["dbg"] = "layout seed=%s file=%s vp=%s %s -> %s" % (seed, e["file"], lay.vp, lay.old_version, new)
    return evs, facts


# versions whose bump changes the length of the text (1.2.9 -> 1.2.10, 0999 -> 11000, -beta dropped)
LEGACY = [("{pycalver}", "v202101.0999-beta", "202101.999b0"), ("{semver}", "1.2.9", "1.2.9"), ("v{year}{build}{release}", "v2021.1001-beta", "2021.1001b0"), ("{pycalver}", "v202101.1001", "202101.1001")]
LEGACY_RAW = ["ver {version} here", "pep={pep440_version}", 'badge/{version}-x', '"{pep440_version}"']


def run_legacy(job):
    """a project with a legacy version pattern: occurrences placed by the generator, expected texts taken from what bumpver announces / prints"""
    seed, opts = job
    rng = random.Random(seed)
    vp, old, pep = LEGACY[seed % len(LEGACY)]
    raws = rng.sample(LEGACY_RAW, rng.randrange(1, 4))
    sep = rng.choice(["\n", "\r\n", "\r"])
    fill = layouts.FILL_PLAIN + (layouts.FILL_HOSTILE if opts.get("hostile") else [])
    lines, occ = [], []
    for _ in range(rng.randrange(1, 6)):
        lines.append(rng.choice(fill))
    for pi, raw in enumerate(raws):
        text = raw.replace("{version}", old).replace("{pep440_version}", pep)
        if rng.random() < 0.6 and lines:
            k = rng.randrange(len(lines))
            if sum(1 for o in occ if o[0] == k) < 2 and not any(o[0] == k and o[3] == pi + 1 for o in occ):
                base = lines[k] + " " if lines[k] and not lines[k].endswith(" ") else lines[k]
                occ.append((k, len(base), len(base) + len(text), pi + 1)); lines[k] = base + text
                continue
        lines.append("# " + text + " tail"); occ.append((len(lines) - 1, 2, 2 + len(text), pi + 1))
    content = sep.join(lines) + (sep if rng.random() < 0.7 else "")
    flags = (["--patch"] if vp == "{semver}" else []) + (["--tag", rng.choice(["final", "rc"])] if vp != "{semver}" and rng.random() < 0.5 else []) + ["--date", "2021-03-09"]
    with drive.scratch_dir("leg") as d:
        proj = project.Project(os.path.join(d, "p"), vcs=None)
        proj.write("bumpver.toml", project.bumpver_toml(old, vp, [("doc.txt", raws)]))
        proj.write("doc.txt", content.encode("utf-8"))
        proj.write("NOTES.txt", "unconfigured %s\n" % old)
        before = proj.snapshot(with_mtime=True)
        r = drive.cli(["update"] + flags, cwd=proj.root)
        after = proj.snapshot(with_mtime=True)
        r2 = drive.cli(["test", old, vp] + flags)
    new = r.new_version()
    newpep = r2.pep440() or r2.new_version()
    evs = []
    if new and newpep and r2.new_version() == new:
        texts = [raw.replace("{version}", new).replace("{pep440_version}", newpep) for raw in raws]
        evs.append(dict(ev="subst", old=glue.cp(content), new=glue.cp(after["doc.txt"][0].decode("utf-8", "replace")), ok=r.exit == 0, texts=[glue.cp(t) for t in texts],
                        occ=[dict(line=a + 1, start=b, end=c, pat=p) for a, b, c, p in occ], file="doc.txt", seed=seed, locale_c=False,
                        dbg="legacy layout seed=%s vp=%s %s -> %s raws=%s" % (seed, vp, old, new, raws)))
    facts = dict(seed=seed, vp=vp, old=old, new=new, exit=r.exit, exc=r.exc, flags=flags, locale_c=False, cfg_has_new=(new is not None and ('current_version = "%s"' % new) in after.get("bumpver.toml", (b"",))[0].decode("utf-8", "replace")),
                 untouched_changed=[k for k in ("NOTES.txt",) if before.get(k) != after.get(k)], extra_files=sorted(set(after) - set(before)), n_files=1, shared_lines=0)
    return evs, facts


def validate(ctx, results, name):
    events = []
    for evs, facts in results:
        events += evs
    for i, e in enumerate(events):
        e["id"] = i + 1
    fails, st = tlc.validate_events("Trace_Rewrite", [{k: v for k, v in e.items() if k not in ("file", "seed", "dbg")} for e in events], name=name)
    ctx.add_trace(st)
    return events, {f["id"]: f for f in fails}


def replay_info(e):
    return dict(layout_seed=e["seed"], file=e["file"], what=e["dbg"], old_text=glue.uncp(e["old"]), new_text=glue.uncp(e["new"]))


def run(ctx):
    drive.setup(hooks=False)
    design(ctx)
    n = ctx.pick(500, 20000)
    jobs = [(ctx.seed * 1000003 + i, dict(gen=dict(hostile=False, stale=0.15, only_partial=0.1))) for i in range(n)]
    results = drive.pmap(run_layout, jobs, hooks=False, chunksize=10)
    results += drive.pmap(run_legacy, [(ctx.seed * 31 + i, dict()) for i in range(ctx.pick(90, 3000))], hooks=False, chunksize=10)      # legacy engine (v1rewrite)
    events, fails = validate(ctx, results, "C03")
    ok_runs = sum(1 for _e, f in results if f["exit"] == 0)
    ctx.count("layouts", len(results))
    ctx.count("updates_exit0", ok_runs)
    ctx.count("file_events", len(events))
    ctx.count("layouts_with_shared_lines", sum(1 for _e, f in results if f["shared_lines"]))
    skipped = 0
    for e in events:
        f = fails.get(e["id"])
        if not f:
            continue
        if f["clause"].startswith("skip:"):
            skipped += 1
        elif f["clause"] == "rewrite:c03:occurrence-not-updated":
            ctx.violation(dict(clause=f["clause"], shared_line=True), case=replay_info(e), expected=f["detail"][:400])
        elif f["clause"].startswith("rewrite:c04") or f["clause"] == "rewrite:no-match-accepted":
            ctx.divergence(f["clause"] + " (property C04/C06)", replay_info(e))
        elif f["clause"] == "rewrite:refused-although-every-pattern-matches":
            ctx.divergence(f["clause"], replay_info(e))
        else:
            ctx.violation(dict(clause=f["clause"]), case=replay_info(e), expected=f["detail"][:400])
    ctx.count("events_skipped_layout_not_well_formed", skipped)
    for _evs, f in results:
        if f["exit"] == 0 and not f["cfg_has_new"]:
            ctx.violation(dict(clause="config-current-version-not-announced"), case=f)
    if ok_runs < 0.5 * len(results) or len(events) - skipped < 0.5 * len(events):
        raise Machinery("vacuous: %d of %d updates exited 0, %d of %d events skipped" % (ok_runs, len(results), skipped, len(events)))
    ctx.evaluations = len(events)
    for e in events:
        ctx.nontriv((e["seed"], e["file"]))
    ctx.rule = ("generated projects of 1..5 files x 1..4 patterns ({version}, {pep440_version}, anchored, two placeholders in one pattern, partial patterns), occurrences on own or "
                "shared lines, LF/CRLF/CR/mixed, globbed entries; real `update`; one `rewrite` event per configured file; non-trivial = distinct (layout, file) events whose layout the "
                "spec found well formed (%d skipped)" % skipped)
    for e in events[:2]:
        ctx.sample(dict(what=e["dbg"], old=glue.uncp(e["old"])[:160], new=glue.uncp(e["new"])[:160]))
    ctx.assumptions += ["files <= ~14 lines x ~90 code points", "layout well-formedness (no unintended match, one occurrence per pattern per line) is computed by the spec's Search"]
