"""C02 - rendered versions are accepted by their own pattern and read back unchanged."""
import random
import datetime as dt
from .. import tlc, drive, glue, corpus
from ..core import Machinery

CAL_PARTS = ["YYYY", "YY", "0Y", "GGGG", "GG", "0G", "Q", "MM", "0M", "DD", "0D", "JJJ", "00J", "WW", "0W", "UU", "0U", "VV", "0V"]


def _week53(pat, st):
    return (("WW" in pat or "0W" in pat) and st.get("week_w") == 53) or (("UU" in pat or "0U" in pat) and st.get("week_u") == 53)


def _readback(text, pat):
    from bumpver import v2version, version
    try:
        back = v2version.parse_version_info(text, pat)
    except version.PatternError:
        return False, {"bad": True}, [0], ""
    except Exception as ex:  # pylint:disable=broad-except
        return False, {"bad": True}, [0], "%s: %s" % (type(ex).__name__, ex)
    return True, glue.state(back), glue.cp(v2version.format_version(back, pat)), ""


def _rt(job):
    pat, kw, date = job
    from bumpver import v2version
    v = glue.make_vinfo(date, **kw)
    text = v2version.format_version(v, pat)
    valid, back, again, exc = _readback(text, pat) if text else (True, glue.state(v), [], "")
    st = glue.state(v)
    return dict(ev="rt", P=glue.parse_pattern(pat, file_pattern=pat.startswith("^") or pat.endswith("$")), v=st, text=glue.cp(text), valid=valid, back=back, again=again,
                today=drive.TODAY.toordinal(), dbg="%s %s" % (pat, text), pat=pat, week53=_week53(pat, st), exc=exc)


def _bumped(job):
    """states reachable by bumping: library incr from a rendered state, then the produced text is checked"""
    pat, kw, date, f, newdate = job
    from bumpver import v2version
    v = glue.make_vinfo(date, **kw)
    old = v2version.format_version(v, pat)
    if not old:
        return None
    drive._take_events()
    try:
        out = v2version.incr(old, pat, major=f["major"], minor=f["minor"], patch=f["patch"], tag=None if f["tag"] == "none" else f["tag"],
                             tag_num=f["tag_num"], pin_increments=f["pin_increments"], pin_date=f["pin_date"],
                             maybe_date=None if f["pin_date"] else newdate)
    except Exception:  # pylint:disable=broad-except
        return None
    hooked = [e for e in drive._take_events() if e.get("ev") == "incr.render"]
    if out is None:
        return None
    valid, back, again, exc = _readback(out, pat)
    cal = glue.state(glue.make_vinfo(newdate))
    w53 = (not f["pin_date"]) and _week53(pat, cal)
    evs = [dict(ev="rt2", P=glue.parse_pattern(pat), text=glue.cp(out), valid=valid, back=back, again=again, today=drive.TODAY.toordinal(),
                dbg="%s %s -> %s" % (pat, old, out), pat=pat, week53=w53, exc=exc)]
    if hooked and hooked[-1].get("text") == out:
        # the STATE the bump reached, recorded by the hook inside incr just before it is rendered: a full rt event (state -> text -> state -> text)
        vi = hooked[-1]["vinfo"]
        st = {k: (glue.cp(v) if k == "bid" else (-1 if v is None else v)) for k, v in vi.items() if k not in ("githash", "hexhash")}
        evs.append(dict(ev="rt", P=glue.parse_pattern(pat), v=st, text=glue.cp(out), valid=valid, back=back, again=again, today=drive.TODAY.toordinal(),
                        dbg="state reached by bumping %s %s %s -> %s" % (pat, old, {k: v for k, v in f.items() if v and v != "none"}, out), pat=pat, week53=w53, exc=exc))
    return evs


def _chain(job):
    """CLI chain: what `bumpver test` announces is fed back as the current version of the next run"""
    pat, start, steps, seed = job
    rng = random.Random(seed)
    from bumpver import v2version
    cur = start
    date = dt.date(2021, 12, 20)
    evs = []
    for _ in range(steps):
        date = min(date + dt.timedelta(days=rng.choice([0, 1, 9, 40])), dt.date(2099, 12, 31))
        f = corpus.random_flags(rng, pat)
        f["pin_date"] = False
        r = drive.cli(["test", cur, pat] + glue.cli_flags(f, date))
        if r.exit != 0:
            continue
        out = r.new_version()
        valid, back, again, exc = _readback(out, pat)
        evs.append(dict(ev="rt2", P=glue.parse_pattern(pat), text=glue.cp(out), valid=valid, back=back, again=again, today=drive.TODAY.toordinal(),
                        dbg="cli-chain %s %s -> %s" % (pat, cur, out), pat=pat, week53=_week53(pat, glue.state(glue.make_vinfo(date))), exc=exc))
        if not valid:
            break
        cur = out
        if len(evs) in (1, 7):
            evs.append(_show(pat, cur, "announced by step %d of a chain" % len(evs)))
    if evs and evs[-1]["ev"] != "show" and cur != start:
        evs.append(_show(pat, cur, "end of a chain"))
    return evs


NUMERIC_FIELDS = ("year_y", "year_g", "quarter", "month", "dom", "doy", "week_w", "week_u", "week_v", "major", "minor", "patch", "num", "inc0", "inc1")


def _show(pat, cur, why):
    """the announced text as the configured current version of a project: what `show` and `show --environ` print"""
    import os
    from .. import project
    with drive.scratch_dir("c02show") as d:
        root = os.path.join(d, "p")
        os.makedirs(root)
        with open(os.path.join(root, "bumpver.toml"), "w", encoding="utf-8") as f:
            f.write(project.bumpver_toml(cur, pat, [("bumpver.toml", ['current_version = "{version}"'])], commit=False, tag=False, push=False))
        r1 = drive.cli(["show", "--no-fetch"], cwd=root)
        r2 = drive.cli(["show", "--no-fetch", "--environ"], cwd=root)
    shown = [ln[len("Current Version: "):] for ln in r1.stdout.splitlines() if ln.startswith("Current Version: ")]
    env = {}
    for ln in r2.stdout.splitlines():
        k, sep, val = ln.partition("=")
        if sep:
            env[k.lower()] = val
    st = {}
    for k in NUMERIC_FIELDS:
        val = env.get(k, "")
        st[k] = int(val) if val.lstrip("-").isdigit() else -1
    st["bid"] = glue.cp(env.get("bid", ""))
    st["tag"] = env.get("tag", "")
    st["pytag"] = env.get("pytag", "")
    if r2.exit != 0 or "bid" not in env:
        st = {"bad": True}
    return dict(ev="show", P=glue.parse_pattern(pat), text=glue.cp(cur), exit=max(r1.exit, r2.exit), shown=glue.cp(shown[0]) if shown else [0], env=st, today=drive.TODAY.toordinal(),
                dbg="show %s %s (%s) -> exit %s/%s %r" % (pat, cur, why, r1.exit, r2.exit, shown), pat=pat, week53=False, exc=(r1.exc or r2.exc or ""))


def _near(job):
    """hostile near-misses of a rendered text: the recogniser's verdict and read-back state must agree with the spec"""
    pat, kw, date, seed = job
    from bumpver import v2version
    rng = random.Random(seed)
    text = v2version.format_version(glue.make_vinfo(date, **kw), pat)
    if not text:
        return []
    out = []
    for _ in range(3):
        k = rng.randrange(4)
        i = rng.randrange(len(text))
        if k == 0:
            t = text[:i] + rng.choice("0123456789.-abv ") + text[i + 1:]
        elif k == 1:
            t = text[:i] + text[i + 1:]
        elif k == 2:
            t = text + rng.choice(["0", ".", "-", "a", "b1", " ", "\n"])
        else:
            t = text[:i] + rng.choice("019.") + text[i:]
        if "\n" in t[:-1]:
            continue
        valid, back, _again, exc = _readback(t, pat)
        if exc:
            back = {"bad": True}
        out.append(dict(ev="parse", P=glue.parse_pattern(pat), text=glue.cp(t), today=drive.TODAY.toordinal(), v=back,
                        dbg="%s %r" % (pat, t), pat=pat, exc=exc))
    return out


def run(ctx):
    rng = random.Random(ctx.seed)
    # ---- design (a): every calendar value
    spans = ctx.pick([(dt.date(2001, 1, 1), dt.date(2099, 12, 31)), (dt.date(1000, 1, 1), dt.date(1004, 12, 31)), (dt.date(9995, 1, 1), dt.date(9999, 12, 31))],
                     [(dt.date(1000, 1, 1), dt.date(9999, 12, 31))])
    for a, b in spans:
        n = b.toordinal() - a.toordinal() + 1
        cfg = ("INIT Init\nNEXT Next\nCONSTANTS First = %d\n Last = %d\n Chunk = %d\nINVARIANT EveryValueAccepted\nINVARIANT GapIsReal\n"
               "INVARIANT CalendarSane\nCHECK_DEADLOCK FALSE\n" % (a.toordinal(), b.toordinal(), n // 512 + 1))
        res = tlc.run(tlc.module_text("mc/MC_C02a.tla"), cfg, name="MC_C02a", workers=16, timeout=3400, xmx="8g")
        ctx.add_design(res, "MC_C02a %s..%s" % (a, b))
        if res.violation:
            ctx.violation(dict(clause="design:" + res.violation), case=dict(state=res.trace[-1:]), check="design")
        if res.distinct != n:
            raise Machinery("MC_C02a visited %d of %d days" % (res.distinct, n))
    # ---- design (b): whole patterns
    pats = corpus.corpus(random.Random(ctx.seed + 5), ctx.pick(40, 600))
    sel = rng.sample(pats, ctx.pick(16, 120))
    gen = glue.gen_module("Gen_C02", dict(
        GenPatterns=[glue.parse_pattern(p) for p in sel],
        GenDates={dt.date(2021, 1, 1).toordinal(), dt.date(2024, 12, 29).toordinal(), dt.date(2026, 10, 3).toordinal()},
        GenToday=drive.TODAY.toordinal(), GenNums={0, 9, 10}, GenBuilds={tuple(glue.cp("1001")), tuple(glue.cp("0999")), tuple(glue.cp("22000"))},
        GenTags={"final", "beta", "dev"}))
    res = tlc.run(tlc.module_text("mc/MC_C02b.tla"), "INIT Init\nNEXT Next\nINVARIANT RoundTripHolds\nCHECK_DEADLOCK FALSE\n", name="MC_C02b",
                  workers=16, extra_files={"Gen_C02.tla": gen}, timeout=3400, xmx="12g")
    ctx.add_design(res, "MC_C02b patterns=%d" % len(sel))
    if res.violation:
        clause = [ln for ln in res.stdout.splitlines() if "FAILED-CLAUSE" in ln][:1]
        ctx.violation(dict(clause="design:" + (clause[0] if clause else res.violation)), case=dict(state=res.trace[-1:], patterns=sel), check="design")

    # ---- code -> spec
    events = []
    ctx.log('generating events')
    # every calendar part on its own, on days chosen to reach every value (quick) / all days (thorough)
    if ctx.quick:
        days = set(corpus.new_year_dates(4) + corpus.week53_dates())
        for y in (2001, 2004, 2023, 2024, 2099):
            d = dt.date(y, 1, 1)
            while d.year == y:
                days.add(d); d += dt.timedelta(days=1)
        days = sorted(days)
    else:
        days = [dt.date.fromordinal(n) for n in range(dt.date(2001, 1, 1).toordinal(), dt.date(2099, 12, 31).toordinal() + 1)]
        days += [dt.date.fromordinal(n) for n in range(dt.date(1000, 1, 1).toordinal(), dt.date(9999, 12, 31).toordinal() + 1, 97)]
    def alone(part):      # a calendar part together with the year it belongs to
        f = glue.FIELD_OF[part]
        return part if f in ("year_y", "year_g") else ("GGGG." if f == "week_v" else "YYYY.") + part
    jobs = [(alone(part), {}, d) for d in days for part in CAL_PARTS if not (part in ("YY", "0Y", "GG", "0G") and not (2001 <= d.year <= 2098))]
    if ctx.quick:
        w53 = set(corpus.week53_dates())
        jobs = [j for i, j in enumerate(jobs) if j[2].year in (2024,) or j[2] in w53 or i % 5 == ctx.seed % 5]
    ctx.count("part_day_events", len(jobs))
    n_rt = ctx.pick(6000, 300000)
    special = corpus.boundary_dates() + corpus.week53_dates() + corpus.new_year_dates(3, 2019, 2027)
    for i in range(n_rt):
        jobs.append((pats[i % len(pats)], corpus.random_state_kw(rng), rng.choice(special) if rng.random() < 0.4 else corpus.random_date(rng)))
    # patterns as they stand in file_patterns: literal text around the version pattern, line anchors, escaped brackets (normalised the way the config loader does)
    for vp_ in ("vYYYY0M.BUILD[-TAG]", "MAJOR.MINOR.PATCH[PYTAGNUM]", "YYYY.MM[.INC0]", "MAJOR.MINOR.PATCH"):
        for wrap in ('^__version__ = "%s"$', '__version__ = "%s"$', '^version: %s', 'img/\\[CalVer %s\\]-blue', '%s$'):
            for _ in range(ctx.pick(12, 200)):
                jobs.append((wrap % vp_, corpus.random_state_kw(rng), corpus.random_date(rng)))
    # one field in two spellings within one bracket-free stretch of the pattern ({version} and {pep440_version} on one line; a date written twice)
    for two in ("mypkg vYYYY.0M.BUILD (pip install mypkg==YYYY.MM.BLD)", "YYYY-0M-0D (MM/DD)", "BUILD.BLD", "vYYYY.0M.BUILD YYYY.MM.BLD[PYTAGNUM]", "0Y.YYYY", "JJJ/00J of YYYY", "vYYYY.0W (week WW)"):
        for _ in range(ctx.pick(12, 200)):
            kw = corpus.random_state_kw(rng)
            if "BLD" in two and str(kw.get("bid", "")).startswith("0"):
                kw["bid"] = "1" + str(kw["bid"])        # BUILD keeps leading zeros, BLD drops them: with both in one pattern only unpadded ids have one reading
            jobs.append((two, kw, corpus.random_date(rng)))
    ctx.log('rt jobs %d' % len(jobs))
    events += drive.pmap(_rt, jobs, hooks=False, chunksize=500)
    ctx.log('rt done')
    bjobs = []
    for i in range(ctx.pick(6000, 300000)):
        pat = pats[i % len(pats)]
        date = rng.choice(special) if rng.random() < 0.5 else corpus.random_date(rng)
        nd = date + dt.timedelta(days=rng.choice([0, 1, 7, 31, 366]))
        bjobs.append((pat, corpus.random_state_kw(rng), date, corpus.random_flags(rng, pat), min(nd, dt.date(2099, 12, 31))))
    # "every version state reachable by bumping": every flag set on a final and on a pre-release state of a few core patterns
    for pat in ("MAJOR.MINOR.PATCH[PYTAGNUM]", "vMAJOR.MINOR.PATCH[-TAG[NUM]]", "YYYY.MM[.INC1]", "vYYYY0M.BUILD[-TAG]", "vYYYY.0W[.INC0][-TAGNUM]"):
        for kw in (dict(major=1, minor=0, patch=1, bid="1001", tag="final", num=0, inc0=0, inc1=1), dict(major=0, minor=9, patch=9, bid="0999", tag="rc", num=1, inc0=9, inc1=9)):
            for f in corpus.all_flag_sets(pat):
                bjobs.append((pat, kw, dt.date(2021, 7, 29), f, dt.date(2021, 7, 29) + dt.timedelta(days=rng.choice([0, 40]))))
    for evs in drive.pmap(_bumped, bjobs, hooks=True, chunksize=500):
        events += evs or []
    ctx.count("bumped_states_recorded_by_the_hook", sum(1 for e in events if e["ev"] == "rt" and e["dbg"].startswith("state reached")))
    ctx.log('bumped done')
    cjobs = []
    from bumpver import v2version
    for i in range(ctx.pick(48, 1500)):
        pat = pats[(i * 7) % len(pats)]
        start = v2version.format_version(glue.make_vinfo(dt.date(2021, 12, 1), **corpus.random_state_kw(rng)), pat)
        if start:
            cjobs.append((pat, start, 20, ctx.seed * 100003 + i))
    for evs in drive.pmap(_chain, cjobs, hooks=False):
        events += evs
    ctx.count("cli_chains", len(cjobs))
    ctx.log('chains done')
    njobs = [(pats[i % len(pats)], corpus.random_state_kw(rng), corpus.random_date(rng), ctx.seed * 7919 + i) for i in range(ctx.pick(2500, 100000))]
    for evs in drive.pmap(_near, njobs, hooks=False, chunksize=200):
        events += evs
    ctx.log('near done, %d events' % len(events))
    # numeric parts are naturals below 2^31 in TLC: texts with a digit run of more than 9 digits are outside the bounds
    import re as _re
    inb = [e for e in events if not _re.search(r"[0-9]{10,}", glue.uncp(e["text"]))]
    ctx.count("events_outside_bounds", len(events) - len(inb))
    events = inb
    for i, e in enumerate(events):
        e["id"] = i + 1
    kinds = {}
    for e in events:
        kinds[e["ev"]] = kinds.get(e["ev"], 0) + 1
    for k, n in kinds.items():
        ctx.count("events_" + k, n)
    slim = [{k: v for k, v in e.items() if k not in ("pat", "week53", "exc")} for e in events]
    fails, st = tlc.validate_events("Trace_Text", slim, name="C02")
    ctx.add_trace(st)
    by_id = {e["id"]: e for e in events}
    for f in fails:
        e = by_id[f["id"]]
        clause = f["clause"]
        if e["ev"] == "parse" and "impossible-date" in f["detail"]:
            # a near-miss text (never rendered by bumpver) that spells an impossible date: C02 does not speak about it (see C09)
            ctx.divergence("recogniser accepts an impossible date", dict(pattern=e["pat"], text=glue.uncp(e["text"])))
            continue
        facts = dict(clause=clause, event=e["ev"], week53=bool(e.get("week53")))
        if e.get("exc"):
            facts["raises"] = e["exc"].split(":")[0]
        case = dict(pattern=e["pat"], text=glue.uncp(e["text"]), what=e["dbg"], state=e.get("v"))
        ctx.violation(facts, case=case, expected=f["detail"], observed=dict(valid=e.get("valid"), back=e.get("back"), again=e.get("again") and glue.uncp(e["again"]) if e.get("again") and e["again"][0] else None))
    ctx.evaluations = len(events)
    for e in events:
        if e["text"]:
            ctx.nontriv((e["pat"], tuple(e["text"])))
    ctx.rule = ("rt: (pattern, state) pairs - every calendar part alone on selected days, corpus patterns x pool/random states; rt2: texts produced by "
                "library incr and by 20-step `bumpver test` chains; show: announced texts as the configured version of a project, `show` and `show --environ`; parse: near-miss texts. distinct non-trivial = distinct (pattern, non-empty text) pairs")
    for e in events[len(events) // 2:len(events) // 2 + 3]:
        ctx.sample(dict(event=e["ev"], what=e["dbg"]))
    ctx.assumptions += ["version texts <= ~45 code points", "quick: calendar parts on 5 full years + all New Year +-4 days + all week-53 days of 2001..2099 (design instance (a) covers every day)"]
