"""C14 - calendar versions never run backwards as the date advances."""
import random
import datetime as dt
from .. import tlc, drive, glue, corpus
from ..core import Machinery
from . import c05

REST = dict(major=0, minor=0, patch=0, bid=glue.cp("1001"), tag="final", pytag="", num=0, inc0=0, inc1=1)


def _cal_batch(days):
    from bumpver import v2version
    out = []
    for n in days:
        c = v2version.cal_info(dt.date.fromordinal(n))._asdict()
        out.append(dict(ev="calinfo", n=n, c=c, dbg=str(dt.date.fromordinal(n))))
    return out


def _mono_batch(job):
    pat, coherent, days = job
    from bumpver import v2version, version
    P = glue.parse_pattern(pat)
    out = []
    for n in days:
        v1 = glue.make_vinfo(dt.date.fromordinal(n), bid="1001")
        v2 = glue.make_vinfo(dt.date.fromordinal(n + 1), bid="1001")
        t1 = v2version.format_version(v1, pat)
        t2 = v2version.format_version(v2, pat)
        lower = version.parse_version(t2) < version.parse_version(t1)
        out.append(dict(ev="mono", P=P, n=n, rest=REST, t1=glue.cp(t1), t2=glue.cp(t2), lower=bool(lower), coherent=coherent,
                        dbg="%s %s -> %s" % (pat, t1, t2), pat=pat))
    return out


def _weekpat(pat):
    from bumpver import v2version
    import logging
    return dict(ev="weekpat", P=glue.parse_pattern(pat), ok=bool(v2version.is_valid_week_pattern(pat)), dbg=pat, pat=pat)


def _cli_reject(job):
    """a rejected pairing is refused by `bumpver test` whatever the version; a coherent one bumps"""
    pat, n = job
    from bumpver import v2version
    d = dt.date.fromordinal(n)
    old = v2version.format_version(glue.make_vinfo(d, bid="1001"), pat + ".INC0")
    r = drive.cli(["test", old, pat + ".INC0", "--date", (d + dt.timedelta(days=1)).isoformat()])
    return (pat, old, r.exit, r.new_version())


def run(ctx):
    rng = random.Random(ctx.seed)
    coherent = corpus.coherent_calendar_patterns()
    rejected = corpus.incoherent_calendar_patterns()
    a, b = dt.date(2001, 1, 1).toordinal(), dt.date(2099, 12, 30).toordinal()          # day pairs (n, n + 1): the last pair is 30 / 31 December 2099 (two-digit years wrap in 2100)
    wa, wb = ctx.pick((dt.date(2019, 1, 1).toordinal(), dt.date(2030, 12, 31).toordinal()), (a, b))
    ny = [d.toordinal() for d in corpus.new_year_dates(4)]
    boundary = sorted(set(rng.sample(ny, ctx.pick(10, 40)) + [d.toordinal() for d in corpus.boundary_dates()[:ctx.pick(6, 30)]]))
    gen = glue.gen_module("Gen_C14", dict(
        GenCoherent=[glue.parse_pattern(p) for p in coherent], GenRejected=[glue.parse_pattern(p) for p in rejected],
        GenWitnessDays=set(d.toordinal() for d in corpus.new_year_dates(5, 2001, 2030)), GenBoundary=set(boundary),
        GenToday=drive.TODAY.toordinal(), GenExtraSeq=sorted(d for d in ny if not wa <= d <= wb)))
    cfg = ("INIT Init\nNEXT Next\nCONSTANTS First = %d\n Last = %d\n Chunk = %d\nINVARIANT Monotone\nINVARIANT NeverBackwards\nCHECK_DEADLOCK FALSE\n"
           % (wa, wb, (wb - wa) // 24 + 1))
    res = tlc.run(tlc.module_text("mc/MC_C14.tla"), cfg, name="MC_C14", workers=16, extra_files={"Gen_C14.tla": gen}, timeout=3400, xmx="12g")
    ctx.add_design(res, "MC_C14 %d coherent x (%d consecutive day pairs + all New Year +-4 pairs 2001..2099); %d rejected pairings; %d^2 bump pairs" % (len(coherent), wb - wa, len(rejected), len(boundary)))
    if res.violation:
        ctx.violation(dict(clause="design:" + res.violation), case=dict(state=res.trace[-1:]), check="design")
    if res.distinct < wb - wa + 1:
        raise Machinery("MC_C14 visited %d states for %d days" % (res.distinct, wb - wa + 1))

    # ---- code -> spec
    events = []
    days = list(range(a, b + 1)) if True else []
    if not ctx.quick:
        days += list(range(dt.date(1000, 1, 1).toordinal(), dt.date(9999, 12, 31).toordinal() + 1, 11))
    for batch in drive.pmap(_cal_batch, [days[i:i + 3000] for i in range(0, len(days), 3000)], hooks=False):
        events += batch
    ctx.count("calinfo_events", len(events))
    mdays = sorted(set(ny + rng.sample(range(a, b), ctx.pick(300, 6000))))
    if not ctx.quick:
        mdays = list(range(a, b))
    mjobs = []
    for pat in coherent:
        for i in range(0, len(mdays), 2000):
            mjobs.append((pat, True, mdays[i:i + 2000]))
    for pat in rejected:
        mjobs.append((pat, False, ny))
    n0 = len(events)
    for batch in drive.pmap(_mono_batch, mjobs, hooks=False):
        events += batch
    ctx.count("mono_events", len(events) - n0)
    # week pattern verdicts: all pairings, bare and with literal text / further parts around them
    wp = []
    for p in coherent + rejected:
        wp += [p, "v" + p + ".PATCH[-TAG]", "rel-" + p.replace(".", "-") + "_INC0", p + ".BUILD"]
    for y in corpus.YEARS_Y + corpus.YEARS_G:
        for w1 in ["WW", "0U", "VV"]:
            for w2 in ["0V", "UU"]:
                wp.append("%s.%s.%s" % (y, w1, w2))
    wp = [p for p in dict.fromkeys(wp) if _in_grammar(p)]
    events += drive.pmap(_weekpat, wp, hooks=False, chunksize=50)
    ctx.count("weekpat_events", len(wp))
    for i, e in enumerate(events):
        e["id"] = i + 1
    slim = [{k: v for k, v in e.items() if k != "pat"} for e in events]
    fails, st = tlc.validate_events("Trace_Text", slim, name="C14")
    ctx.add_trace(st)
    by_id = {e["id"]: e for e in events}
    for f in fails:
        e = by_id[f["id"]]
        ctx.violation(dict(clause=f["clause"], event=e["ev"]), case=dict(what=e["dbg"], n=e.get("n")), expected=f["detail"])
    # rejected pairings are refused at the CLI, coherent ones bump (black box)
    cj = [(p, rng.choice(ny)) for p in rejected for _ in range(3)] + [(p, rng.choice(ny)) for p in coherent for _ in range(2)]
    n_ref = n_bump = 0
    for pat, old, exit_, new in drive.pmap(_cli_reject, cj, hooks=False):
        if pat in rejected:
            n_ref += 1
            if exit_ == 0:
                ctx.violation(dict(clause="cli:rejected-pairing-accepted", pattern=pat), case=dict(cmd="bumpver test %s %s.INC0" % (old, pat)), observed=new)
        else:
            n_bump += 1
    ctx.count("cli_rejected_pairings", n_ref)
    # bump level: never backwards, through the CLI, around every New Year (incr events, rule + calendar-backwards clauses)
    jobs = []
    for pat in coherent:
        for _ in range(ctx.pick(40, 600)):
            d = dt.date.fromordinal(rng.choice(ny))
            nd = d + dt.timedelta(days=rng.choice([-400, -3, -2, -1, 0, 1, 2, 3, 7, 366]))
            if not (dt.date(2001, 1, 1) <= nd <= dt.date(2099, 12, 31)):
                nd = d
            jobs.append((pat + rng.choice([".INC0", ".INC0", "", ".PATCH"]), dict(patch=1), d, glue.flags(pin_date=rng.random() < 0.1), nd, rng.choice(["cli", "lib"])))
        # ... and anywhere in the year: the bump date days, weeks, a quarter or two before / after the current version (the from-the-future guard must hold for every part)
        for _ in range(ctx.pick(14, 200)):
            d = dt.date(rng.randrange(2002, 2098), rng.randrange(1, 13), rng.randrange(1, 29))
            nd = d + dt.timedelta(days=rng.choice([-200, -100, -45, -10, -1, 1, 10, 45, 100, 200]))
            jobs.append((pat + rng.choice([".INC0", ".BUILD", ".PATCH"]), dict(patch=1, bid="1001"), d, glue.flags(patch=rng.random() < 0.3 and False), nd, "lib"))
    ievents = [e for e in drive.pmap(c05._case, jobs, hooks=False, chunksize=100) if e]
    for i, e in enumerate(ievents):
        e["id"] = i + 1
    fails, st = tlc.validate_events("Trace_Text", [{k: v for k, v in e.items() if k not in ("exc", "exit", "pat")} for e in ievents], name="C14i")
    ctx.add_trace(st)
    ctx.count("bump_events", len(ievents))
    by_id = {e["id"]: e for e in ievents}
    for f in fails:
        e = by_id[f["id"]]
        if f["clause"] in ("incr:refusal", "incr:divergence", "incr:old-unreadable"):
            ctx.divergence(f["clause"], e["dbg"])
        elif f["clause"] == "incr:new-unreadable" and ("W" in e["pat"] or "U" in e["pat"]):
            ctx.divergence("week 53 rendering not readable (finding S1 of C02)", e["dbg"])
        else:
            ctx.violation(dict(clause=f["clause"], event="incr"), case=dict(cmd=e["dbg"], out=glue.uncp(e["out"]) if e["out"][0] else None), expected=f["detail"])
    ctx.evaluations = len(events) + len(ievents)
    for e in events:
        if e["ev"] == "mono":
            ctx.nontriv((e["pat"], e["n"]))
    ctx.rule = ("calinfo: every day 2001..2099; mono: every coherent combination x (all New Year +-4 days and a seeded sample of days; thorough: every day pair), "
                "rejected pairings x New Year days; weekpat: all pairings bare and embedded; bump-level `bumpver test` around New Year. "
                "non-trivial = distinct (combination, day pair) mono cases")
    for e in [x for x in events if x["ev"] == "mono"][:3]:
        ctx.sample(dict(event="mono", what=e["dbg"]))
    ctx.exhaustive = False
    ctx.assumptions += ["PEP 440 order of rendered calendar versions computed by the spec's VerCmp on the code's own renderings"]


def _in_grammar(p):
    try:
        glue.parse_pattern(p)
        return True
    except glue.OutsideGrammar:
        return False
