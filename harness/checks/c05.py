"""C05 - bump semantics follow the documented part rules."""
import random
import datetime as dt
from .. import tlc, drive, glue, corpus
from ..core import Machinery

DESIGN_CORE = ["MAJOR.MINOR.PATCH[PYTAGNUM]", "vYYYY0M.BUILD[-TAG[NUM]]", "vYYYY.0W[.INC0][-TAG]", "YYYY.MM[.MINOR[.PATCH]]",
               "vGGGG.0V.INC1", "YY.0M.0D.PATCH-TAGNUM", "YYYY.MM[.INC1]", "MM.YYYY.INC0"]
CFG = "INIT Init\nNEXT Next\nINVARIANT BumpFollowsRules\nCHECK_DEADLOCK FALSE\n"


def design(ctx, patterns, dates, offsets, nums, name="MC_C05"):
    gen = glue.gen_module("Gen_C05", dict(
        GenPatterns=[glue.parse_pattern(p) for p in patterns],
        GenDates=set(d.toordinal() for d in dates), GenToday=drive.TODAY.toordinal(),
        GenNums=set(nums), GenBuilds={tuple(glue.cp("1001")), tuple(glue.cp("0999"))},
        GenTags={"final", "beta", "post"}, GenOffsets=set(offsets)))
    res = tlc.run(tlc.module_text("mc/MC_C05.tla"), CFG, name=name, workers=16, extra_files={"Gen_C05.tla": gen},
                  timeout=3400, xmx="12g")
    ctx.add_design(res, "%s patterns=%d dates=%d offsets=%d" % (name, len(patterns), len(dates), len(offsets)))
    if res.violation:
        clause = [ln for ln in res.stdout.splitlines() if "FAILED-CLAUSE" in ln][:1]
        ctx.violation(dict(clause="design:" + (clause[0] if clause else res.violation)),
                      case=dict(state=res.trace[-1:] and res.trace[-1][:1500], patterns=patterns), check="design")
    return res


def _case(job):
    """one `bumpver test OLD PATTERN <flags> --date D` invocation -> incr event"""
    pat, kw, date, f, newdate = job[:5]
    mode = job[5] if len(job) > 5 else "cli"
    from bumpver import v2version
    v = glue.make_vinfo(date, **kw)
    old = v2version.format_version(v, pat)
    if old == "":
        return None
    args = ["test", old, pat] + glue.cli_flags(f, newdate)
    if mode == "lib":
        # the library entry point (no gate behind it): what `incr` itself computes
        r = drive.Run()
        r.exit, r.exc = 0, None
        try:
            out = v2version.incr(old, pat, major=f["major"], minor=f["minor"], patch=f["patch"], tag=None if f["tag"] == "none" else f["tag"],
                                 tag_num=f["tag_num"], pin_increments=f["pin_increments"], pin_date=f["pin_date"],
                                 maybe_date=None if f["pin_date"] else newdate)
            o = glue.cp(out) if out else [0]
        except OverflowError:
            o = [0, 0]
        except Exception as ex:  # pylint:disable=broad-except
            o = [0]
            r.exc = "%s: %s" % (type(ex).__name__, ex)
        args = ["lib:incr"] + args[1:]
    else:
        r = drive.cli(args)
        if r.exit == 0:
            out = r.new_version()
            o = glue.cp(out) if out else [0]
        elif r.exc and "OverflowError" in r.exc:
            o = [0, 0]
        else:
            o = [0]
    return dict(ev="incr", P=glue.parse_pattern(pat), old=glue.cp(old), f=f, date=newdate.toordinal(), today=drive.TODAY.toordinal(),
                out=o, mode=mode, dbg="%s %s %s %s" % (args[0], pat, old, " ".join(args[3:])), exc=r.exc or "", exit=r.exit, pat=pat)


def gen_jobs(ctx, rng, patterns, n):
    jobs = []
    special = corpus.boundary_dates() + corpus.week53_dates()[:12] + corpus.new_year_dates(3, 2019, 2027)
    for i in range(n):
        pat = patterns[i % len(patterns)]
        date = rng.choice(special) if rng.random() < 0.5 else corpus.random_date(rng)
        kw = corpus.random_state_kw(rng)
        f = corpus.random_flags(rng, pat)
        nd = date + dt.timedelta(days=rng.choice(corpus.DATE_OFFSETS))
        if not (dt.date(2001, 1, 1) <= nd <= dt.date(2099, 12, 31)):      # two-digit year parts are only meaningful on 2001..2099
            nd = date
        jobs.append((pat, kw, date, f, nd, "lib" if i % 3 == 0 else "cli"))
    # README-style systematic part: every flag set on one state per core pattern
    for pat in DESIGN_CORE:
        date = dt.date(2021, 7, 29)
        kw = dict(major=1, minor=9, patch=99, bid="1999", tag="beta", num=1, inc0=9, inc1=10)
        for f in corpus.all_flag_sets(pat):
            jobs.append((pat, kw, date, f, date + dt.timedelta(days=rng.choice([0, 40]))))
        kw = dict(major=1, minor=0, patch=9, bid="0999", tag="final", num=0, inc0=0, inc1=1)
        for f in corpus.all_flag_sets(pat):
            jobs.append((pat, kw, date, f, date + dt.timedelta(days=rng.choice([0, 40])), "lib"))
    return jobs


def classify(ctx, e, f):
    """turn a failed verdict of the trace spec into violation / divergence"""
    clause = f["clause"]
    facts = dict(clause=clause, event="incr")
    flags = {k: v for k, v in e["f"].items() if v and v != "none"}
    case = dict(pattern=e["pat"], old=glue.uncp(e["old"]), flags=flags, date=str(glue.date_of(e["date"])),
                out=glue.uncp(e["out"]) if e["out"][0] else None, cmd=e["dbg"])
    if clause in ("incr:refusal", "incr:divergence", "incr:old-unreadable"):
        ctx.divergence(clause, case)
        return
    if clause == "incr:new-unreadable" and not e["f"]["pin_date"]:
        d = glue.date_of(e["date"])
        if (d.strftime("%W") == "53" and ("WW" in e["pat"] or "0W" in e["pat"])) or (d.strftime("%U") == "53" and ("UU" in e["pat"] or "0U" in e["pat"])):
            # the library renders week 53, which its recogniser rejects: finding S1, recorded under C02 (the CLI gate refuses such a bump)
            ctx.divergence("week 53 rendered by incr is not readable (finding S1, property C02)", case)
            return
    if clause.startswith("incr:rule:"):
        facts["field"] = clause[len("incr:rule:"):]
    facts["pin_date"] = bool(e["f"]["pin_date"])
    facts["tag_num"] = bool(e["f"]["tag_num"])
    facts["tag_flag"] = e["f"]["tag"]
    ctx.violation(facts, case=case, expected=f["detail"], observed=case["out"])


def run(ctx):
    rng = random.Random(ctx.seed)
    pats = corpus.corpus(random.Random(ctx.seed + 5), ctx.pick(40, 600))
    # ---- design level
    extra = rng.sample([p for p in pats if p not in DESIGN_CORE], ctx.pick(2, 12))
    dates = [dt.date(2021, 1, 1), dt.date(2024, 12, 30)] + ctx.pick([], [dt.date(2021, 7, 29)])
    res = design(ctx, DESIGN_CORE + extra, dates, ctx.pick([0, 1, 31, -1], [0, 1, 31, 366, -1]), [0, 9])
    if res.distinct < 1000:
        raise Machinery("MC_C05 explored only %d states" % res.distinct)
    # ---- code -> spec
    jobs = gen_jobs(ctx, rng, pats, ctx.pick(12000, 400000))
    events = [e for e in drive.pmap(_case, jobs, hooks=False, chunksize=200) if e]
    for i, e in enumerate(events):
        e["id"] = i + 1
    bumped = sum(1 for e in events if e["out"][0] != 0)
    ctx.count("cli_cases", len(events))
    ctx.count("bumped", bumped)
    ctx.count("refused", len(events) - bumped)
    if bumped < 0.4 * len(events):
        raise Machinery("vacuous: only %d of %d cases produced a new version" % (bumped, len(events)))
    slim = [{k: v for k, v in e.items() if k not in ("exc", "exit", "pat")} for e in events]
    fails, st = tlc.validate_events("Trace_Text", slim, name="C05")
    ctx.add_trace(st)
    by_id = {e["id"]: e for e in events}
    for f in fails:
        classify(ctx, by_id[f["id"]], f)
    if True:
        from . import hooktrace as _ht
        _ht.apply(ctx, ("text",), ("incr:",))      # the repository's own tests, recorded through the hooks
    ctx.evaluations = len(events)
    for e in events:
        if e["out"][0] != 0:
            ctx.nontriv((e["pat"], tuple(sorted((k, str(v)) for k, v in e["f"].items())), tuple(e["old"]), e["date"]))
    ctx.rule = ("seeded random (pattern, state, flags, date, new date) cases over a corpus of %d grammar patterns plus all flag sets on a fixed state "
                "for 6 core patterns, each run through `bumpver test`; non-trivial = distinct cases in which a new version was produced" % len(pats))
    for e in events[:3]:
        ctx.sample(dict(cmd=e["dbg"], out=glue.uncp(e["out"]) if e["out"][0] else "refused"))
    ctx.assumptions += ["version texts up to ~40 code points; dates 2001..2099 plus boundary dates", "a refusal by the code where the spec would bump is a violation unless it is explained: the CLI gate refuses results that are not greater or not accepted by the pattern; the library refuses only where the spec does"]
