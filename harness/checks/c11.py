"""C11 - uncommitted changes are never swept into the bump commit."""
import os
import random
import subprocess as sp
from .. import tlc, drive, glue, project
from ..core import Machinery

STATES = ["clean", " M", "M ", "MM", "A ", "AM", " D", "D ", "R ", "RM", "??", "D?", " T", "T "]       # " T" / "T ": type change (the file replaced by a symbolic link); "D?": removed from the index but kept on disk (git rm --cached): two status lines for one path
OLD, NEW = "1.2.3", "1.2.4"
GENV = dict(GIT_AUTHOR_NAME="t", GIT_AUTHOR_EMAIL="t@e", GIT_COMMITTER_NAME="t", GIT_COMMITTER_EMAIL="t@e", GIT_CONFIG_GLOBAL="/dev/null", GIT_CONFIG_SYSTEM="/dev/null")


def git(cwd, *args, check=True):
    p = sp.run(["git"] + list(args), cwd=cwd, stdout=sp.PIPE, stderr=sp.PIPE, env=dict(os.environ, **GENV))
    if check and p.returncode != 0:
        raise RuntimeError("git %s: %s" % (" ".join(args), p.stderr.decode()))
    return p.stdout.decode("utf-8", "surrogateescape")


def build(job):
    """files: list of (name, carries_pattern, state); allow: --allow-dirty"""
    files, allow, seed, cfg_state = job[:4]
    subdir = len(job) > 4 and job[4]          # the project (config and files) lives in a sub-directory of the repository and bumpver runs there
    pre = "pkg/" if subdir else ""
    with drive.scratch_dir("c11") as d:
        root = os.path.join(d, "p")
        os.makedirs(root)
        git(root, "init", "-q", "-b", "main")
        proj = project.Project(os.path.join(root, "pkg") if subdir else root, vcs=None)
        keys = {f[0]: (f[3] if len(f) > 3 else f[0]) for f in files}
        files = [f[:3] for f in files]
        pattern_files = [(n, s) for n, pat, s in files if pat]
        # (a third of the runs: committing is switched on by --commit over a configured commit = false - the dirty check belongs to the run that commits)
        import zlib
        cli_commit = zlib.crc32(repr((files, allow, cfg_state)).encode()) % 3 == 1
        # the configured path of a renamed pattern file is its NEW name; the KEY under which it is configured may be another spelling of the
        # path (./name, a glob that matches only it): which file carries a pattern does not depend on the spelling
        # series.txt carries a PARTIAL pattern (MAJOR.MINOR): under --patch its text does not change - it still is a file carrying a version pattern
        proj.write("bumpver.toml", project.bumpver_toml(OLD, "MAJOR.MINOR.PATCH", [(keys[n], ["series MAJOR.MINOR" if n == "series.txt" else "{version}"]) for n, _s in pattern_files], commit=not cli_commit))
        for n, pat, s in files:
            if s in ("A ", "AM", "??"):
                continue
            name = "old_" + n if s in ("R ", "RM") else n
            proj.write(name, (("series 1.2\n" if n == "series.txt" else "version %s\n" % OLD) if pat else "content\n") + "line two\n")
        git(root, "add", "-A")
        git(root, "commit", "-q", "-m", "init")
        for n, pat, s in files:
            body = (("series 1.2\n" if n == "series.txt" else "version %s\n" % OLD) if pat else "content\n") + "line two\n"
            p = os.path.join(proj.root, n)
            if s in (" M", "M ", "MM"):
                proj.write(n, body + "user edit 1\n")
                if s in ("M ", "MM"):
                    git(root, "add", pre + n)
                if s == "MM":
                    proj.write(n, body + "user edit 1\nuser edit 2\n")
            elif s in ("A ", "AM"):
                proj.write(n, body); git(root, "add", pre + n)
                if s == "AM":
                    proj.write(n, body + "user edit\n")
            elif s == "??":
                proj.write(n, body)
            elif s == " D":
                os.remove(p)
            elif s == "D ":
                git(root, "rm", "-q", pre + n)
            elif s == "D?":
                git(root, "rm", "-q", "--cached", pre + n)
            elif s in (" T", "T "):
                os.remove(p)
                os.symlink("bumpver.toml", p)
                if s == "T ":
                    git(root, "add", pre + n)
            elif s in ("R ", "RM"):
                git(root, "mv", pre + "old_" + n, pre + n)
                if s == "RM":
                    proj.write(n, body + "user edit after rename\n")
        if cfg_state == " M":
            with open(os.path.join(proj.root, "bumpver.toml"), "a") as f:
                f.write("# user note\n")
        lines = [ln for ln in git(root, "status", "--porcelain").split("\n") if ln]
        head0 = git(root, "rev-parse", "HEAD").strip()
        before = proj.snapshot()
        # (a third of the runs with --ignore-vcs-tag: the option speaks of where the old version is taken from; there are no tags here, the dirty check is the same)
        import zlib
        ign = ["--ignore-vcs-tag"] if zlib.crc32(repr((files, allow, cfg_state)).encode()) % 3 == 0 else []
        r = drive.cli(["update", "--patch", "--no-fetch"] + ign + (["--commit"] if cli_commit else []) + (["--allow-dirty"] if allow else []), cwd=proj.root, env=GENV)
        after = proj.snapshot()
        head1 = git(root, "rev-parse", "HEAD").strip()
        sweep = False
        committed = []
        if head1 != head0:
            committed = [x[len(pre):] if x.startswith(pre) else "../" + x for x in git(root, "show", "--name-only", "--format=", "-z", "HEAD").replace("\n", "").split("\0") if x]
            for n, _s in pattern_files + [("bumpver.toml", cfg_state)]:
                old_c = git(root, "show", "%s:%s" % (head0, pre + n), check=False)
                new_c = git(root, "show", "%s:%s" % (head1, pre + n), check=False)
                if old_c and new_c != old_c.replace(OLD, NEW):
                    sweep = True
            # paths outside the configuration in the bump commit: only without --allow-dirty does the property exclude them
            # (with it, changes the user had already staged ride along: observation S17, outside the statement)
            if not allow and any(c not in [n for n, _s in pattern_files] + ["bumpver.toml"] for c in committed):
                sweep = True
            # ... but what the user had NOT staged (unstaged modification or deletion, untracked file) of an unrelated file stays out of the
            # bump commit under --allow-dirty too: bumpver stages the configured paths only
            if any(n in committed for n, pat, st in files if not pat and st in (" M", " D", "??")):
                sweep = True
    paths = [pre + n for n, _s in pattern_files] + [pre + "bumpver.toml"]        # as git names them: relative to the repository root
    return dict(subdir=bool(subdir), not_committing=bool(subdir and head1 == head0 and r.exit == 0), ev="dirty", tool="git", lines=[glue.cp(ln) for ln in lines], paths=[list(p.encode("utf-8")) for p in paths], allow=allow, exit=r.exit, changed=before != after if r.exit != 0 else False,
                sweep=sweep, committed=committed, exc=r.exc or "", states={n: s for n, _p, s in files},
                spelled=sorted(set(k for n, k in keys.items() if k != n)),
                dbg="files=%s cfg=%s allow=%s status=%r -> exit=%s committed=%s" % ([(keys[n], "pattern" if p else "other", s) for n, p, s in files], cfg_state, allow, lines, r.exit, committed))


def run(ctx):
    drive.setup(hooks=False)
    res = tlc.run(tlc.module_text("mc/MC_C11.tla"), "INIT Init\nNEXT Next\nCONSTANT S22 = FALSE\nINVARIANT NoSweep\nINVARIANT DirtyBlocksUnlessAllowed\nINVARIANT UntrackedOthersInert\nINVARIANT ParseRecovers\nCHECK_DEADLOCK FALSE\n",
                  name="MC_C11", workers=16, timeout=3000)
    ctx.add_design(res, "MC_C11 four files x eleven git states x --allow-dirty (29,282 working trees)")
    if res.violation:
        ctx.violation(dict(clause="design:" + res.violation), case=dict(state=res.trace[-1:]), check="design")
    # self-test of the invariants: the repaired defect S22 (a quoted path compared as it stands) must be rejected by NoSweep
    res2 = tlc.run(tlc.module_text("mc/MC_C11.tla"), "INIT Init\nNEXT Next\nCONSTANT S22 = TRUE\nINVARIANT NoSweep\nCHECK_DEADLOCK FALSE\n", name="MC_C11", workers=4, timeout=600)
    if res2.violation != "NoSweep":
        raise Machinery("MC_C11 self-test: the quoted-path variant was not rejected (%s)" % (res2.violation or res2.error))
    ctx.exhaustive = True
    rng = random.Random(ctx.seed)
    jobs = []
    for s in STATES:                                      # the single-file matrix: state x {pattern file, unrelated file} x --allow-dirty
        for pat in (True, False):
            for allow in (False, True):
                jobs.append(([("pat.txt", True, s if pat else "clean"), ("other.txt", False, "clean" if pat else s)], allow, len(jobs), "clean"))
    for s in STATES:                                      # the same with the pattern file configured under another spelling of its path
        for allow in (False, True):
            for key in ("./pat.txt", "pat.tx?"):
                jobs.append(([("pat.txt", True, s, key), ("other.txt", False, "clean")], allow, len(jobs), "clean"))
    for s in STATES:                                      # ... and with a pattern file whose (partial) pattern renders the same text before and after the bump
        for allow in (False, True):
            jobs.append(([("pat.txt", True, "clean"), ("series.txt", True, s), ("other.txt", False, "clean")], allow, len(jobs), "clean"))
    for s in STATES:                                      # ... and with a pattern file whose name git prints quoted (a blank, a non-ASCII letter)
        for allow in (False, True):
            jobs.append(([("rel notes \u00e9.md", True, s), ("other.txt", False, "clean")], allow, len(jobs), "clean"))
    names = [("pat.txt", True), ("src_p2.py", True), ("other.txt", False), ("M x.txt", False), ("notes.md", False), ("series.txt", True), ("rel notes \u00e9.md", True), ("caf\u00e9 \"x\".txt", False)]
    spell = {"pat.txt": ["pat.txt", "pat.txt", "./pat.txt", "pat.tx?", ".//pat.txt"], "src_p2.py": ["src_p2.py", "src_p2.py", "./src_p2.py", "src_*.py"]}
    for i in range(ctx.pick(160, 1300)):
        k = rng.randrange(2, len(names) + 1)
        files = [(n, p, rng.choice(STATES) if rng.random() < 0.5 else "clean", rng.choice(spell.get(n, [n]))) for n, p in names[:k]]
        jobs.append((files, rng.random() < 0.5, 1000 + i, rng.choice(["clean", "clean", "clean", " M"])))
    for allow in (False, True):                            # an untracked file without a pattern whose path is a PREFIX of a pattern file's path (README next to README.md)
        jobs.append(([("pat.txt", True, "clean"), ("pat", False, "??"), ("pat.tx", False, "??")], allow, len(jobs), "clean"))
        jobs.append(([("pat.txt", True, "clean"), ("pat.txt.bak", False, "??"), ("p", False, "??")], allow, len(jobs), "clean"))
    for s in (" M", "M ", "MM", "??"):                    # a long status listing: twelve unrelated dirty files sort before the dirty pattern file
        for allow in (False, True):
            jobs.append(([("a%02d.txt" % k, False, " M") for k in range(1, 13)] + [("zz_pat.txt", True, s)], allow, len(jobs), "clean"))
    for s in STATES:                                      # the project in a sub-directory of the repository, bumpver run from there: if it commits at all, the same rules hold
        for allow in (False, True):
            jobs.append(([("pat.txt", True, s), ("other.txt", False, "clean")], allow, len(jobs), "clean", True))
    events = drive.pmap(build, jobs, hooks=False, chunksize=2)
    ctx.count("subdirectory_runs", sum(1 for e in events if e["subdir"]))
    ctx.count("subdirectory_runs_that_did_not_commit_at_all", sum(1 for e in events if e["not_committing"]))
    events = [e for e in events if not e["not_committing"]]          # "When committing ...": a run in which bumpver does not use the VCS at all is outside the statement
    for i, e in enumerate(events):
        e["id"] = i + 1
    fails, st = tlc.validate_events("Trace_Update", [{k: v for k, v in e.items() if k not in ("dbg", "exc", "committed", "states", "spelled", "subdir", "not_committing")} for e in events], name="C11")
    ctx.add_trace(st)
    by_id = {e["id"]: e for e in events}
    for f in fails:
        e = by_id[f["id"]]
        if f["clause"] == "dirty:divergence-refused-although-clean-enough":
            ctx.divergence(f["clause"], e["dbg"])
            continue
        pat_states = sorted(set(s for n, s in e["states"].items() if n in ("pat.txt", "src_p2.py", "series.txt", "rel notes \u00e9.md", "zz_pat.txt") and s != "clean"))
        ctx.violation(dict(clause=f["clause"], allow=e["allow"], pattern_file_states=pat_states, leading_blank=any(s.startswith(" ") for s in pat_states), rename=("R " in pat_states or "RM" in pat_states), partial_pattern_file_dirty=e["states"].get("series.txt", "clean") != "clean", project_in_subdirectory=e["subdir"], quoted_name_dirty=e["states"].get("rel notes \u00e9.md", "clean") != "clean", long_listing=len(e["states"]) > 10, respelled_key=bool(e["spelled"])),
                      case=dict(what=e["dbg"], exc=e["exc"][:200]))
    ctx.count("repositories", len(events))
    ctx.count("blocked_runs", sum(1 for e in events if e["exit"] != 0))
    ctx.count("committing_runs", sum(1 for e in events if e["committed"]))
    ctx.evaluations = len(events)
    for e in events:
        ctx.nontriv(e["dbg"])
    ctx.rule = ("real git repositories: the 11 x 2 x 2 single-file matrix (state x pattern/unrelated x --allow-dirty) and seeded multi-file working trees (2..5 files, config file "
                "sometimes modified, a file name that looks like a status line, pattern files configured as name, ./name, .//name or a glob matching only them, a pattern file with a partial pattern that the bump leaves unchanged); status text is real git's; the bump commit's content is compared with the previous commit's; "
                "non-trivial = distinct working trees")
    for e in events[2:5]:
        ctx.sample(dict(what=e["dbg"]))
    ctx.assumptions += ["git only (no hg binary): hg's one-letter status format is covered by the spec's parser and by C10's fake hg", "file names that git quotes in its status output are covered (blank, quote, non-ASCII); names containing ' -> ' are not"]
