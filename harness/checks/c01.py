"""C01 - a successful bump yields a valid, strictly greater version."""
import os
import random
import datetime as dt
from .. import tlc, drive, glue, corpus, project, fakevcs
from ..core import Machinery
from . import c05

CFG = ("INIT Init\nNEXT Next\nINVARIANT AnnouncedValidAndGreater\nINVARIANT FailureTouchesNothing\nINVARIANT DryWritesNothing\n"
       "INVARIANT EqualSpellingRejected\nCHECK_DEADLOCK FALSE\n")


def targets(rng, start, greater):
    """--set-version targets: greater, equal, PEP 440-equal but textually different, lower, malformed, empty"""
    return [("greater", greater), ("equal", start), ("respelled.0", start + ".0"), ("respelled0", "0" + start), ("prefixed", "v" + start),
            ("truncated", start[:-1]), ("junk", start + "x"), ("empty", ""), ("one", "1"), ("blank", greater + " "),
            # a greater version with white space around it (a VERSION file passed on unstripped): PEP 440 parsing tolerates it, the pattern must not
            ("newline", greater + "\n"), ("crlf", greater + "\r\n"), ("leading-blank", " " + greater), ("tab", greater + "\t"), ("two-lines", greater + "\n" + greater),
            ("respelled-tag", start.replace("-beta", "b0").replace("b0", "-beta") if ("beta" in start or "b0" in start) else start + "-0")]


def _greater(old, pat, date):
    """some greater version of the same pattern (used only to build --set-version targets)"""
    from bumpver import v2version
    try:
        return v2version.incr(old, pat, major="MAJOR" in pat, patch="PATCH" in pat and "MAJOR" not in pat, maybe_date=date + dt.timedelta(days=40)) or old
    except Exception:  # pylint:disable=broad-except
        return old


def _test_case(job):
    """`bumpver test OLD PATTERN (<flags> | --set-version X)`"""
    pat, old, mode, arg, date = job
    if mode == "set":
        args = ["test", old, pat, "--set-version", arg[1]]
    else:
        args = ["test", old, pat] + glue.cli_flags(arg, date)
    r = drive.cli(args)
    new = r.new_version() if r.exit == 0 else None
    return dict(ev="gate", P=glue.parse_pattern(pat), cfgver=glue.cp(old), tags=[], scope="default", ignore=True, old=[0],
                new=glue.cp(new) if new else [0], exit=r.exit, changed=False, today=drive.TODAY.toordinal(),
                dbg="bumpver " + " ".join(repr(a) if (" " in a or not a) else a for a in args), pat=pat, exc=r.exc or "",
                klass=arg[0] if mode == "set" else "auto")


def _update_case(job):
    """`bumpver update [--dry] ...` in a scratch project (commit off), tags served by the fake git"""
    (pat, cfgver, tags, tags_branch, scope, ignore, mode, arg, date, dry, idx) = job[:11]
    vcs_fault = job[11] if len(job) > 11 else None        # "fetch" / "ls_tags": the VCS command fails (remote present, fetching on)
    with drive.scratch_dir("c01") as d:
        # one case in seven is a Mercurial repository: `hg tags` prints the name padded to a column, then rev:node ("tip" first); tags of the branch come one per line
        hg = idx % 7 == 3 and not vcs_fault and idx % 6 != 2
        proj = project.Project(os.path.join(d, "p"), vcs="hg" if hg else "git", gitfile=(idx % 4 == 3 and not hg))
        fv = fakevcs.FakeVCS(os.path.join(d, "fake"), "hg" if hg else "git")
        remote_mode = False
        if vcs_fault:
            fv.set(tags=tags, tags_branch=tags_branch, status="", remote="", branches="* main 1234abc [origin/main] msg\n", fail=[vcs_fault, "ls_tags_branch"] if vcs_fault == "ls_tags" else [vcs_fault])
        elif idx % 6 == 2 and scope != "branch":
            # the tags are on the remote and become visible with the fetch that `update` does by default; half of the time the current branch tracks
            # nothing (a fresh branch, a detached HEAD in CI) and the remote is known by its URL only
            remote_mode = True
            fv.set(tags=[], tags_remote=tags, tags_branch=tags_branch, status="", remote=["", "https://example.com/demo/repo.git\n"][idx // 6 % 2],
                   branches=["* main 1234abc [origin/main] msg\n", "* (HEAD detached at 1234abc) 1234abc msg\n  main 1234abc msg\n"][idx // 6 % 2])
        elif hg:
            rows = ["%-30s %5d:%s" % (t, len(tags) - q, "0a1b2c3d4e5f") for q, t in enumerate(["tip"] + list(tags))]
            fv.set(tags=rows, tags_branch=tags_branch, status="", remote="")
        else:
            fv.set(tags=tags, tags_branch=tags_branch, status="", remote="", branches="")
        # the scope in force comes from the config file or - in two cases of five - from --tag-scope on the command line over a DIFFERENT configured scope
        scopes = ["default", "global", "branch"]
        cli_scope = idx % 5 in (0, 1)
        cfg_scope = scopes[(scopes.index(scope) + 1 + idx % 2) % 3] if cli_scope else scope
        proj.write(*project.config_file(["bumpver.toml", "bumpver.toml", "setup.cfg", "pyproject.toml"][idx % 4], cfgver, pat, [("README.md", ["{version}"]), ("src/pkg.txt", ['version = "{version}"'])],
                                        extra={"tag_scope": cfg_scope}, variant=idx // 4))
        proj.write("README.md", "# demo\n\ncurrent release: %s (see notes)\n" % cfgver)
        proj.write("src/pkg.txt", 'name = "x"\nversion = "%s"\n' % cfgver)
        proj.write("unrelated.txt", "keep %s\n" % cfgver)
        if idx % 11 == 5:
            # a configured file that is not valid UTF-8 (a latin-1 byte in an old header): whatever happens, a failing run changes no file
            proj.write("src/pkg.txt", b'# \xa9 2001 ACME\nname = "x"\nversion = "' + cfgver.encode() + b'"\n')
        before = proj.snapshot()
        args = ["update"] + ([] if (vcs_fault or remote_mode) else ["--no-fetch"])
        if dry:
            args.append("--dry")
        if ignore:
            args.append("--ignore-vcs-tag")
        if cli_scope:
            args += ["--tag-scope", scope]
        if mode == "set":
            args += ["--set-version", arg[1]]
        else:
            args += glue.cli_flags(arg, date)
        r = drive.cli(args, cwd=proj.root, env=fv.env())
        after = proj.snapshot()
        changed = before != after
        new = r.new_version() if r.exit == 0 else None
        old = r.old_version()
        mut = [e for e in fv.log() if e[0] == "cmd" and e[1] in ("add_path", "commit", "tag", "tag_light", "push", "push_tag")]
    lst = tags_branch if scope == "branch" else tags
    return dict(ev="gate", P=glue.parse_pattern(pat), cfgver=glue.cp(cfgver), tags=[glue.cp(t) for t in lst], scope=scope, ignore=bool(ignore),
                old=glue.cp(old) if old else [0], new=glue.cp(new) if new else [0], exit=r.exit, changed=bool(changed) if (r.exit != 0 or dry) else False,
                today=drive.TODAY.toordinal(), dbg="cfg=%s tags=%s scope=%s (configured: %s): bumpver %s" % (cfgver, lst, scope, cfg_scope, " ".join(args)), pat=pat, exc=r.exc or "", scope_on_command_line=cli_scope,
                klass=arg[0] if mode == "set" else "auto", dry=dry, dry_changed=bool(dry and changed), vcs_mutations=len(mut))


def run(ctx):
    rng = random.Random(ctx.seed)
    drive.setup(hooks=False)
    pats = corpus.corpus(random.Random(ctx.seed + 5), ctx.pick(40, 600))
    # ---- design
    sel = c05.DESIGN_CORE[:4] + rng.sample(pats, ctx.pick(4, 40))
    gen = glue.gen_module("Gen_C05", dict(
        GenPatterns=[glue.parse_pattern(p) for p in sel], GenDates={dt.date(2021, 1, 1).toordinal(), dt.date(2024, 12, 20).toordinal()},
        GenToday=drive.TODAY.toordinal(), GenNums={0, 9, 10}, GenBuilds={tuple(glue.cp("1001")), tuple(glue.cp("0999"))},
        GenTags={"final", "beta", "post"}, GenOffsets={0}))
    res = tlc.run(tlc.module_text("mc/MC_C01.tla"), CFG, name="MC_C01", workers=16, extra_files={"Gen_C05.tla": gen}, timeout=3400, xmx="12g")
    ctx.add_design(res, "MC_C01 patterns=%d (automatic increments x 36 flag sets, 10 --set-version target classes, dry/real)" % len(sel))
    if res.violation:
        ctx.violation(dict(clause="design:" + res.violation), case=dict(state=res.trace[-2:]), check="design")
    if res.distinct < 2000:
        raise Machinery("MC_C01 explored only %d states" % res.distinct)

    # ---- code -> spec: `bumpver test`
    from bumpver import v2version
    jobs = []
    special = corpus.boundary_dates() + [d for d in corpus.week53_dates() if d.year <= 2098][:20]          # days on which %W / %U give 53, which the week parts cannot express
    for i in range(ctx.pick(2500, 60000)):
        pat = pats[i % len(pats)]
        date = rng.choice(special) if rng.random() < 0.3 else corpus.random_date(rng, 2001, 2098)
        old = v2version.format_version(glue.make_vinfo(date, **corpus.random_state_kw(rng)), pat)
        if not old or not v2version.is_valid(old, pat):
            continue
        nd = min(date + dt.timedelta(days=rng.choice([0, 1, 40, 400, -1])), dt.date(2099, 12, 31))
        if rng.random() < 0.5:
            jobs.append((pat, old, "auto", corpus.random_flags(rng, pat), nd))
        else:
            g = _greater(old, pat, date)
            jobs.append((pat, old, "set", rng.choice(targets(rng, old, g)), nd))
    # systematic: EVERY --set-version target class on versions whose pattern has optional numeric tails, in the short and in the long spelling
    # (1.2 / 1.2.0: PEP 440-equal, textually different - neither may be announced from the other)
    for pat, olds in (("MAJOR.MINOR[.PATCH]", ["1.2", "1.2.0", "1.0", "1.2.3"]), ("vMAJOR[.MINOR[.PATCH]]", ["v1", "v1.0", "v1.0.0", "v1.2"]), ("YYYY.MM[.INC0]", ["2021.3", "2021.3.0", "2021.3.1"]),
                      ("MAJOR.MINOR.PATCH[PYTAGNUM]", ["1.2.3", "1.2.3rc0", "1.2.3b1"])):
        for old in olds:
            g = _greater(old, pat, dt.date(2021, 3, 9))
            for tgt in targets(rng, old, g) + [("stripped.0", old[:-2] if old.endswith(".0") else old)]:
                jobs.append((pat, old, "set", tgt, dt.date(2021, 3, 9)))
            jobs.append((pat, old, "auto", glue.flags(), dt.date(2021, 3, 9)))          # a flag-less bump re-renders the version: it must not be announced if it is not greater
    # systematic: automatic increments on days whose %W / %U week number is 53 - the week parts cannot express it, so such a bump must be refused, never announced
    for pat in ("YYYY.0W.INC0", "YYYY.WW", "YYYY.UU", "vYYYY.0U.PATCH", "YYYY.WW[.BUILD]"):
        for d in [x for x in corpus.week53_dates() if x.year <= 2098][:10]:
            old = v2version.format_version(glue.make_vinfo(d - dt.timedelta(days=7), major=1, minor=2, patch=3, bid="1001", tag="final", num=0, inc0=3, inc1=1), pat)
            if old and v2version.is_valid(old, pat):
                jobs.append((pat, old, "auto", glue.flags(patch="PATCH" in pat), d))
    events = drive.pmap(_test_case, jobs, hooks=False, chunksize=100)
    ctx.count("test_cases", len(events))

    # ---- code -> spec: `bumpver update [--dry]` on scratch projects with tag sets from the fake git
    ujobs = []
    upats = [p for p in pats if " " not in p]
    for i in range(ctx.pick(1500, 40000)):
        pat = upats[(i * 3) % len(upats)]
        date = corpus.random_date(rng, 2001, 2098)
        mk = lambda: v2version.format_version(glue.make_vinfo(corpus.random_date(rng, 2001, 2098) if rng.random() < 0.5 else date, **corpus.random_state_kw(rng)), pat)
        cfgver = mk()
        if not cfgver or not v2version.is_valid(cfgver, pat):
            continue
        tags = []
        for _ in range(rng.choice([0, 0, 1, 2, 3])):
            t = rng.choice([mk(), cfgver, "junk-%d" % rng.randrange(9), "v0.0.1", "2020.02.30", cfgver + "x"])
            if t:
                tags.append(t)
        tags_branch = [t for t in tags if rng.random() < 0.6]
        scope = rng.choice(["default", "default", "global", "branch"])
        ignore = rng.random() < 0.15
        nd = min(date + dt.timedelta(days=rng.choice([0, 1, 40, 400])), dt.date(2099, 12, 31))
        if rng.random() < 0.6:
            mode, arg = "auto", corpus.random_flags(rng, pat)
        else:
            g = _greater(cfgver, pat, date)
            mode, arg = "set", rng.choice(targets(rng, cfgver, g))
        ujobs.append((pat, cfgver, tags, tags_branch, scope, ignore, mode, arg, nd, rng.random() < 0.5, i))
        if tags and not ignore and i % 6 == 0:
            # the same case with a remote, fetching on, and the fetch / tag listing failing: the run must not go on as if there were no tags
            ujobs.append((pat, cfgver, tags, tags_branch, scope, ignore, mode, arg, nd, rng.random() < 0.5, i, rng.choice(["fetch", "ls_tags"])))
    uevents = drive.pmap(_update_case, ujobs, hooks=False, chunksize=20)
    ctx.count("update_cases", len(uevents))
    events = [e for e in events + uevents if all(len(t) <= 60 for t in [e["cfgver"], e["new"]])]
    import re as _re
    events = [e for e in events if not _re.search(r"[0-9]{10,}", glue.uncp(e["cfgver"]) + " " + (glue.uncp(e["new"]) if e["new"][0] else ""))]
    for i, e in enumerate(events):
        e["id"] = i + 1
    ok0 = sum(1 for e in events if e["exit"] == 0)
    ctx.count("exit0", ok0)
    ctx.count("exit_nonzero", len(events) - ok0)
    for k in sorted(set(e["klass"] for e in events)):
        ctx.count("class_" + k + "_exit0", sum(1 for e in events if e["klass"] == k and e["exit"] == 0))
    if ok0 < 0.15 * len(events):
        raise Machinery("vacuous: only %d of %d runs exited 0" % (ok0, len(events)))
    keep = ("id", "ev", "P", "cfgver", "tags", "scope", "ignore", "old", "new", "exit", "changed", "today")
    fails, st = tlc.validate_events("Trace_Text", [{k: e[k] for k in keep} for e in events], name="C01")
    ctx.add_trace(st)
    by_id = {e["id"]: e for e in events}
    for f in fails:
        e = by_id[f["id"]]
        ctx.violation(dict(clause=f["clause"], klass=e["klass"], scope=e["scope"], scope_on_command_line=bool(e.get("scope_on_command_line"))),
                      case=dict(cmd=e["dbg"], pattern=e["pat"], exit=e["exit"], announced=glue.uncp(e["new"]) if e["new"][0] else None, exc=e["exc"]),
                      expected=f["detail"])
    # black-box clauses that need no spec operator: a dry run never changes a file nor issues a mutating VCS command
    for e in events:
        if e.get("dry_changed"):
            ctx.violation(dict(clause="dry-run-changed-files"), case=dict(cmd=e["dbg"]))
        if e.get("dry") and e.get("vcs_mutations"):
            ctx.violation(dict(clause="dry-run-mutating-vcs-command"), case=dict(cmd=e["dbg"]))
        if e["exc"] and "SystemExit" not in e["exc"]:
            # an uncaught exception is still a non-zero exit without file changes; recorded for the report
            ctx.divergence("uncaught exception", dict(cmd=e["dbg"], exc=e["exc"][:200]))
    if not ctx.quick:
        from . import hooktrace as _ht
        _ht.apply(ctx, ("text",), ("gate:",))      # the repository's own tests, recorded through the hooks
    ctx.evaluations = len(events)
    for e in events:
        if e["exit"] == 0:
            ctx.nontriv((e["pat"], tuple(e["cfgver"]), tuple(e["new"])))
    ctx.rule = ("`bumpver test` and `bumpver update [--dry]` runs (commit off, tag lists from the fake git, three scopes from the config file or from --tag-scope over a different configured one, --ignore-vcs-tag) with seeded flag sets "
                "or --set-version targets of 11 classes; non-trivial = distinct (pattern, start, announced) of runs that exited 0")
    for e in events[:2] + uevents[:2]:
        ctx.sample(dict(cmd=e["dbg"], exit=e["exit"], announced=glue.uncp(e["new"]) if e["new"][0] else None))
    ctx.assumptions += ["commit is off in the update runs, so every non-zero exit stems from the version phase", "version texts <= 60 code points"]
