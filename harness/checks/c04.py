"""C04 - rewriting touches nothing but the matched spans."""
import random
from .. import tlc, drive, glue
from ..core import Machinery
from . import c03


def run(ctx):
    drive.setup(hooks=False)
    c03.design(ctx)
    n = ctx.pick(260, 6000)
    n_c = ctx.pick(100, 6000)
    jobs = [(ctx.seed * 7000003 + i, dict(gen=dict(hostile=True, shared=0.4))) for i in range(n)]
    jobs += [(ctx.seed * 7000003 + i, dict(gen=dict(hostile=True, shared=0.4), locale_c=True)) for i in range(n_c)]      # same layouts under LC_ALL=C, UTF-8 mode off
    results = drive.pmap(c03.run_layout, jobs, hooks=False, chunksize=5)
    results += drive.pmap(c03.run_legacy, [(ctx.seed * 37 + i, dict(hostile=True)) for i in range(ctx.pick(90, 3000))], hooks=False, chunksize=10)      # legacy engine (v1rewrite)
    events, fails = c03.validate(ctx, results, "C04")
    ctx.count("layouts_utf8", n)
    ctx.count("layouts_c_locale", n_c)
    ctx.count("file_events", len(events))
    ok_runs = sum(1 for _e, f in results if f["exit"] == 0)
    ctx.count("updates_exit0", ok_runs)
    skipped = 0
    for e in events:
        f = fails.get(e["id"])
        if not f:
            continue
        if f["clause"].startswith("skip:"):
            skipped += 1
        elif f["clause"].startswith("rewrite:c04"):
            ctx.violation(dict(clause=f["clause"]), case=c03.replay_info(e), expected=f["detail"][:400])
        elif f["clause"] == "rewrite:failed-run-changed-file":
            ctx.divergence(f["clause"] + " (property C06)", c03.replay_info(e))
        else:
            ctx.divergence(f["clause"] + " (property C03/C06)", c03.replay_info(e))
    ctx.count("events_skipped_layout_not_well_formed", skipped)
    # black box: files that are not configured are never written (bytes and mtime), no file appears
    for _evs, f in results:
        if f["untouched_changed"] or f["extra_files"]:
            ctx.violation(dict(clause="unconfigured-file-written"), case=f)
        if f["exc"] and f["locale_c"]:
            ctx.violation(dict(clause="update-crashed-under-c-locale"), case=f)
    # the same layout must give the same bytes under both locales
    by_seed = {}
    for evs, f in results:
        by_seed.setdefault(f["seed"], []).append((f["locale_c"], [(e["file"], e["new"]) for e in evs], f["exit"]))
    n_pairs = 0
    for seed, runs in by_seed.items():
        if len(runs) == 2:
            n_pairs += 1
            if runs[0][1:] != runs[1][1:]:
                ctx.violation(dict(clause="locale-dependent-result"), case=dict(layout_seed=seed))
    ctx.count("locale_pairs_compared", n_pairs)
    if ok_runs < 0.5 * len(results):
        raise Machinery("vacuous: %d of %d updates exited 0" % (ok_runs, len(results)))
    ctx.evaluations = len(events)
    for e in events:
        ctx.nontriv((e["seed"], e["file"], bool(e.get("locale_c"))))
    ctx.rule = ("layouts as for C03 with hostile filler text (BOM, CJK, combining marks, control characters, regex metacharacters, look-alike digits), four line-ending regimes, "
                "with/without trailing newline; every layout run in process (UTF-8) and %d of them again in a subprocess with LC_ALL=C LANG=C PYTHONUTF8=0; all files of the project "
                "directory compared (bytes, mtime of unconfigured files); non-trivial = distinct (layout, file, locale)" % n_c)
    for e in events[:2]:
        ctx.sample(dict(what=e["dbg"], old=glue.uncp(e["old"])[:160]))
    ctx.assumptions += ["two locales: UTF-8 and C with UTF-8 mode off", "files <= ~14 lines"]
