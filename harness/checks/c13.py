"""C13 - --dry changes nothing and shows exactly what a real run would do."""
import os
import re
import random
from .. import tlc, drive, glue, layouts, project, fakevcs
from ..core import Machinery
from . import c03

HUNK_RE = re.compile(r"^@@ -(\d+)(?:,(\d+))? \+(\d+)(?:,(\d+))? @@$")


def parse_diff(text, paths):
    """printed unified diff -> {path: [hunk]}; pure syntax (header numbers and tagged lines)"""
    lines = text.split("\n")
    out = {}
    i = 0
    cur = None
    while i < len(lines):
        ln = lines[i]
        if ln.startswith("--- ") and i + 1 < len(lines) and lines[i + 1].startswith("+++ ") and ln[4:] == lines[i + 1][4:] and ln[4:] in paths:
            cur = ln[4:]
            out.setdefault(cur, [])
            i += 2
            continue
        m = HUNK_RE.match(ln)
        if m and cur is not None:
            a, na, b, nb = int(m.group(1)), int(m.group(2) or 1), int(m.group(3)), int(m.group(4) or 1)
            body = []
            i += 1
            no, nn = 0, 0
            while i < len(lines) and (no < na or nn < nb):
                x = lines[i]
                k = x[:1]
                if k == " ":
                    no += 1; nn += 1
                elif k == "-":
                    no += 1
                elif k == "+":
                    nn += 1
                else:
                    return None
                body.append(dict(k=k, s=glue.cp(x[1:])))
                i += 1
            out[cur].append(dict(a=a, na=na, b=b, nb=nb, body=body))
            continue
        i += 1
    return out


def legacy_layout(rng):
    lay = layouts.Layout()
    lay.vp = rng.choice(["{pycalver}", "{semver}", "v{year}{build}{release}"])
    lay.old_version = {"{pycalver}": "v202101.1001-beta", "{semver}": "1.2.3", "v{year}{build}{release}": "v2021.1001"}[lay.vp]
    pep = {"{pycalver}": "202101.1001b0", "{semver}": "1.2.3", "v{year}{build}{release}": "2021.1001"}[lay.vp]
    sep = rng.choice(["\n", "\r\n"])
    lay.files = {"README.md": sep.join(["intro", "ver %s here" % lay.old_version, "middle", "pep %s" % pep, "end"]) + sep}
    lay.entries = [("README.md", ["ver {version} here", "pep {pep440_version}"])]
    lay.fpats = {}
    lay.flags = (["--patch"] if lay.vp == "{semver}" else []) + ["--date", "2021-03-09"]
    return lay


def run_pair(job):
    seed, opts = job
    rng = random.Random(seed)
    legacy = opts.get("legacy")
    lay = legacy_layout(rng) if legacy else layouts.generate(rng, hostile=opts.get("hostile", False), regimes=("lf", "crlf", "cr"), stale=0.25, only_partial=0.25)
    use_vcs = opts.get("vcs")
    with drive.scratch_dir("c13") as d:
        # one project in nine has a message template that str.format rejects (an unknown placeholder, an unbalanced brace): the dry run must fail like the real one
        bad_tmpl = [None, {"commit_message": "bump {ticket}: {old_version} -> {new_version}"}, {"tag_message": "release {new_version} {stable"}][(seed % 9 == 4) * (1 + seed % 2)]
        proj = lay.materialize(os.path.join(d, "p"), vcs="git" if use_vcs else None, commit=bool(use_vcs),
                               extra=bad_tmpl)
        env = None
        fv = None
        nofetch = ["--no-fetch"]
        if use_vcs:
            fv = fakevcs.FakeVCS(os.path.join(d, "fake"))
            fv.set(tags=[], status="", remote="", branches="")
            env = fv.env()
            if seed % 3 == 1:
                # one configured file is untracked and covered by .gitignore (a generated file): the status does not list it, staging it with --update is a silent no-op
                fv.put("ignored", sorted(lay.files)[0] + "\n")
            if seed % 2 == 0 and not legacy:
                # a remote that holds a newer version tag which has not been fetched yet (someone released from another clone); fetching is on:
                # the dry run and the real run - same arguments - must start from the same version
                rt = drive.cli(["test", lay.old_version, lay.vp] + lay.flags)
                if rt.exit == 0 and rt.new_version():
                    fv.set(tags=[], tags_remote=[rt.new_version()], status="", remote="", branches="* main 1234abc [origin/main] msg\n")
                    nofetch = []
        before = proj.snapshot(with_mtime=True)
        r1 = drive.cli(["update", "--dry"] + nofetch + lay.flags, cwd=proj.root, env=env)
        mid = proj.snapshot(with_mtime=True)
        dry_log = fv.log() if fv else []
        r2 = drive.cli(["update"] + nofetch + lay.flags, cwd=proj.root, env=env)
        after = proj.snapshot()
    paths = set(lay.files) | {lay.cfg_format}
    hunks = parse_diff(r1.stdout, paths) if r1.exit == 0 else {}
    evs = []
    facts = dict(seed=seed, vp=lay.vp, dry_exit=r1.exit, real_exit=r2.exit, dry_changed=[k for k in before if before[k] != mid.get(k)] + sorted(set(mid) - set(before)),
                 dry_mutating=[e[1] for e in dry_log if e[0] == "cmd" and e[1] in ("add_path", "commit", "tag", "tag_light", "push", "push_tag")],
                 fetching=not nofetch, bad_template=bool(bad_tmpl),
                 dry_hooks=[e for e in dry_log if e[0] == "hook"], unparsable=hunks is None, flags=lay.flags, legacy=bool(legacy), exc=[x for x in (r1.exc, r2.exc) if x],
                 dry_new=r1.new_version(), real_new=r2.new_version(), stdout=r1.stdout[:400] if hunks is None else "")
    if r1.exit == 0 and hunks is not None:
        for path in sorted(paths):
            try:
                old = before[path][0].decode("utf-8")
                real = after[path].decode("utf-8", "replace")
            except (KeyError, UnicodeDecodeError):
                continue
            if "\r" in old.replace("\r\n", "") and "\n" in old.replace("\r\n", ""):
                continue       # inconsistent endings: outside the property
            evs.append(dict(ev="diff", old=glue.cp(old), hunks=hunks.get(path, []), real=glue.cp(real), seed=seed, file=path,
                            dbg="layout seed=%s file=%s vp=%s dry->real" % (seed, path, lay.vp), changed=old != real))
    return evs, facts


def run(ctx):
    drive.setup(hooks=False)
    c03.design(ctx)
    n = ctx.pick(300, 10000)
    jobs = [(ctx.seed * 13000003 + i, dict(hostile=(i % 4 == 0), vcs=(i % 5 == 0))) for i in range(n)]
    jobs += [(ctx.seed * 13000003 + n + i, dict(legacy=True)) for i in range(ctx.pick(30, 600))]
    results = drive.pmap(run_pair, jobs, hooks=False, chunksize=5)
    events = []
    for evs, f in results:
        events += evs
    for i, e in enumerate(events):
        e["id"] = i + 1
    fails, st = tlc.validate_events("Trace_Rewrite", [{k: v for k, v in e.items() if k not in ("seed", "file", "dbg", "changed")} for e in events], name="C13")
    ctx.add_trace(st)
    by_id = {e["id"]: e for e in events}
    for f in fails:
        e = by_id[f["id"]]
        ctx.violation(dict(clause=f["clause"]), case=dict(layout_seed=e["seed"], file=e["file"], what=e["dbg"], old_text=glue.uncp(e["old"]), real_text=glue.uncp(e["real"]), hunks=len(e["hunks"])),
                      expected=f["detail"][:300])
    dry_ok = 0
    for _evs, f in results:
        if f["dry_changed"]:
            ctx.violation(dict(clause="dry-run-changed-files"), case=f)
        if f["dry_mutating"] or f["dry_hooks"]:
            ctx.violation(dict(clause="dry-run-issued-mutating-command"), case=f)
        if f["dry_exit"] == 0:
            dry_ok += 1
            if f["real_exit"] != 0:
                ctx.violation(dict(clause="dry-exit0-real-run-fails"), case=f)
            if f["unparsable"]:
                ctx.violation(dict(clause="diff-unparsable"), case=f)
            if f["dry_new"] != f["real_new"]:
                ctx.violation(dict(clause="dry-and-real-announce-different-versions"), case=f)
    ctx.count("projects", len(results))
    ctx.count("dry_exit0", dry_ok)
    ctx.count("diff_events", len(events))
    ctx.count("diff_events_with_change", sum(1 for e in events if e["changed"]))
    ctx.count("with_fake_vcs", sum(1 for j in jobs if j[1].get("vcs")))
    if dry_ok < 0.5 * len(results):
        raise Machinery("vacuous: only %d of %d dry runs exited 0" % (dry_ok, len(results)))
    ctx.evaluations = len(events)
    for e in events:
        if e["changed"]:
            ctx.nontriv((e["seed"], e["file"]))
    ctx.rule = ("generated projects (as C03/C04, consistent line endings; every 4th with hostile text, every 5th with commit on and a fake git; plus legacy-pattern projects): `update --dry` "
                "then the real `update`; per configured file one `diff` event (old text, printed hunks, real result); non-trivial = files the real run changed")
    for e in events[:2]:
        ctx.sample(dict(what=e["dbg"], hunks=len(e["hunks"])))
    ctx.assumptions += ["the printed diff is parsed purely syntactically (headers and tagged lines); applying it is the spec's ApplyHunks"]
