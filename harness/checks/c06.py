"""C06 - a failed update leaves the project untouched."""
import os
import random
from .. import tlc, drive, glue, project, fakevcs
from ..core import Machinery

CFG = ("INIT Init\nNEXT Next\nCONSTANTS MaxFiles = %d\n MaxPats = 3\n Lazy = %s\n Export = %s\nINVARIANT FailedUpdateTouchesNothing\nINVARIANT FaultMeansFailure\n"
       "INVARIANT NoFaultMeansSuccess\nINVARIANT DryWritesNothing\nINVARIANT Exported\nCHECK_DEADLOCK FALSE\n")
ENG = {"v2": ("vYYYY0M.BUILD[-TAG]", "v202101.1001-beta", "202101.1001b0"), "v1": ("{pycalver}", "v202101.1001-beta", "202101.1001b0")}
RAWS = ["ver={version}", "pep={pep440_version}", "rel <{version}>"]


def replay(job):
    """concretise one exported terminal state, run the real update, observe"""
    case, seed = job
    rng = random.Random(seed)
    vp, old, pep = ENG[case["engine"]]
    n = case["n"]
    names = ["a%d.txt" % k for k in range(1, n + 1)]
    # a third of the projects configure their files through globs that match exactly one file each (a removed file then is an unmatched glob)
    keys = [("a%d.tx?" % (k + 1)) if seed % 3 == 0 else names[k] for k in range(n)]
    # in a quarter of the projects (both engines) the LAST file carries partial patterns only, which this bump (same year) leaves unchanged: it still has to be found and matched
    partial_last = seed % 4 == 1
    PART = ((["(c) YYYY", "since YYYY -", "year=YYYY"] if case["engine"] == "v2" else ["(c) {year}", "since {year} -", "year={year}"]), ["(c) 2021", "since 2021 -", "year=2021"], ["(c) ", "since ", "year="])
    raws_of = lambda k: (PART[0] if (partial_last and k == n - 1) else RAWS)[:case["pats"][k]]
    entries = [(keys[k], raws_of(k)) for k in range(n)]
    if seed % 5 == 2 and n >= 2 and not partial_last and case["fault"]["kind"] != "removed":      # (a removed file would simply drop out of the glob)
        # one glob entry first that gives every file its first pattern, then the files' own keys with the rest: the entries of one file are not adjacent
        entries = [("a*.txt", [RAWS[0]])] + [(names[k], RAWS[1:case["pats"][k]]) for k in range(n) if case["pats"][k] > 1]
    if seed % 7 == 3 and not partial_last:
        # a pattern listed twice for one file: repeated as it stands, or {version} next to the version pattern written out (the same search after normalisation)
        spelled = RAWS[0].replace("{version}", vp)
        entries = [(key, list(raws) + [raws[0] if (seed // 7 + q) % 2 or raws[0] != RAWS[0] else spelled]) for q, (key, raws) in enumerate(entries)]
    bare_extra = seed % 7 == 5 and not partial_last and not (seed % 5 == 2 and n >= 2)
    if bare_extra:
        # a bare {version} as a further pattern of every file (with an occurrence of its own on a "plain ..." line): the text of a general pattern is part of
        # the text of the specific ones - each pattern still has to be found on its own
        entries = [(key, list(raws) + ["{version}"]) for key, raws in entries]
    cfg_pos = rng.randrange(0, n + 1)
    fault = case["fault"]
    with drive.scratch_dir("c06") as d:
        proj = project.Project(os.path.join(d, "p"), vcs="git" if case["commit"] else None)
        ents = list(entries)
        if rng.random() < 0.7:
            ents.insert(cfg_pos, ("bumpver.toml", ['current_version = "{version}"']))       # the config file's own entry at a varying position
        proj.write("bumpver.toml", project.bumpver_toml(old, vp, ents, commit=case["commit"]))
        for k, name in enumerate(names):
            if fault["kind"] == "removed" and fault["k"] == k + 1:
                # the file cannot be read: it is absent, or a directory stands in its place, or its bytes are not UTF-8
                how = seed % 4
                if how == 1:
                    os.makedirs(os.path.join(proj.root, name))
                elif how == 2:
                    proj.write(name, b"ver=" + old.encode() + b"\n\xff\xfe broken \xc3\x28\n")
                continue
            lines = ["# file %d" % (k + 1)]
            for j in range(case["pats"][k]):
                if partial_last and k == n - 1:
                    lines += [PART[2][j] + "none here"] if (fault["kind"] == "nomatch" and fault["k"] == k + 1 and fault["j"] == j + 1) else [PART[1][j]] * rng.choice([1, 2])
                elif fault["kind"] == "nomatch" and fault["k"] == k + 1 and fault["j"] == j + 1:
                    lines.append(["ver=", "pep=", "rel "][j] + "none here")
                else:
                    # a matching pattern may occur on several lines (what counts is that every PATTERN is found, not how many matches there are)
                    lines += [["ver=" + old, "pep=" + pep, "rel <%s>" % old][j]] * rng.choice([1, 1, 2, 3])
            if bare_extra:
                lines.append("plain " + old)
            proj.write(name, "\n".join(lines) + "\n")
            if fault["kind"] == "nomatch" and fault["k"] == k + 1 and seed % 6 == 4:
                proj.write(name, "")            # the file is there but empty (zero bytes): none of its patterns has a match
        proj.write("other.txt", "unrelated %s\n" % old)
        fv = None
        env = None
        if case["commit"]:
            fv = fakevcs.FakeVCS(os.path.join(d, "fake"))
            fv.set(tags=[], status="", remote="", branches="")
            env = fv.env()
        before = proj.snapshot(with_mtime=True)
        # a fifth of the runs with -v / -vv (with -vv `update` prints the diff like --dry and then goes on)
        args = ["update"] + ([["-v"], ["-vv"]][seed % 2] if seed % 5 == 0 else []) + ["--no-fetch"] + (["--dry"] if case["dry"] else [])
        if fault["kind"] == "gate" and case["commit"] and seed % 2 == 1:
            # the new version is rejected for another reason: under --ignore-vcs-tag it is computed from the config value alone and already exists as a tag
            fv.set(tags=["v202103.1002-beta"], status="", remote="", branches="")
            args += ["--ignore-vcs-tag", "--date", "2021-03-09"]
        elif fault["kind"] == "gate":
            args += ["--set-version", old]
        else:
            args += ["--date", "2021-03-09"]
        r = drive.cli(args, cwd=proj.root, env=env)
        after = proj.snapshot(with_mtime=True)        # bytes and mtime: a file rewritten with the same bytes (a partial pattern the bump leaves unchanged) counts as written
        log = fv.log() if fv else []
    changed = [k + 1 for k, name in enumerate(names) if before.get(name) != after.get(name)]
    other = any(before.get(p) != after.get(p) for p in set(before) | set(after) if p not in names and p != "bumpver.toml")
    cfg_changed = before.get("bumpver.toml") != after.get("bumpver.toml")
    return dict(ev="fault", case=dict(case, written=sorted(case["written"])), exit=r.exit, changed=changed, other_changed=bool(other or (cfg_changed and r.exit != 0) or (cfg_changed and case["dry"])),
                log=[dict(kind=e[0], name=e[1]) for e in log], exc=r.exc or "", cfg_pos=cfg_pos,
                dbg="n=%d pats=%s fault=%s commit=%s dry=%s engine=%s cfgpos=%d: bumpver %s" % (n, case["pats"], fault, case["commit"], case["dry"], case["engine"], cfg_pos, " ".join(args)))


def run(ctx):
    drive.setup(hooks=False)
    maxf = ctx.pick(4, 5)
    # the property's shape of the rewrite phase holds the invariants ...
    res = tlc.run(tlc.module_text("mc/MC_C06.tla"), CFG % (maxf, "FALSE", "TRUE"), name="MC_C06", workers=8, timeout=3000, xmx="8g")
    ctx.add_design(res, "MC_C06 up to %d files x 1..3 patterns x every single fault x commit x dry x engine" % maxf)
    if res.violation:
        ctx.violation(dict(clause="design:" + res.violation), case=dict(state=res.trace[-2:]), check="design")
    # ... and the lazy loop (repaired defect S3) must be rejected (self-test of the invariants)
    res2 = tlc.run(tlc.module_text("mc/MC_C06.tla"), CFG % (3, "TRUE", "FALSE"), name="MC_C06", workers=4, timeout=600)
    if res2.violation != "FailedUpdateTouchesNothing":
        raise Machinery("MC_C06 self-test: the lazy write loop was not rejected (%s)" % (res2.violation or res2.error))
    cases = res.printed
    if len(cases) < 100:
        raise Machinery("MC_C06 exported only %d terminal states" % len(cases))
    ctx.count("exported_terminal_states", len(cases))
    rng = random.Random(ctx.seed)
    if ctx.quick:
        small = [c for c in cases if c["n"] <= 3]
        big = [c for c in cases if c["n"] > 3]
        cases = small + rng.sample(big, min(len(big), 500))
    jobs = [(c, ctx.seed * 977 + i) for i, c in enumerate(cases)]
    events = drive.pmap(replay, jobs, hooks=False, chunksize=10)
    for i, e in enumerate(events):
        e["id"] = i + 1
    fails, st = tlc.validate_events("Trace_Update", [{k: v for k, v in e.items() if k not in ("exc", "dbg", "cfg_pos")} for e in events], name="C06")
    ctx.add_trace(st)
    by_id = {e["id"]: e for e in events}
    for f in fails:
        e = by_id[f["id"]]
        fault = e["case"]["fault"]
        ctx.violation(dict(clause=f["clause"], fault=fault["kind"], fault_first=(fault["k"] == 1), dry=e["case"]["dry"], commit=e["case"]["commit"], uncaught=bool(e["exc"])),
                      case=dict(what=e["dbg"], exit=e["exit"], changed=e["changed"], exc=e["exc"][:200], log=[x["name"] for x in e["log"]]), expected=f["detail"])
    for e in events:
        if e["exc"] and "SystemExit" not in e["exc"]:
            ctx.divergence("uncaught exception (still a non-zero exit)", dict(what=e["dbg"], exc=e["exc"][:160]))
    ctx.count("replayed", len(events))
    ctx.count("replayed_with_fault", sum(1 for e in events if e["case"]["fault"]["kind"] != "none"))
    ctx.evaluations = len(events)
    for e in events:
        if e["case"]["fault"]["kind"] != "none":
            ctx.nontriv(e["dbg"])
    ctx.exhaustive = not ctx.quick
    ctx.rule = ("every terminal state of MC_C06 (projects of 1..%d files x 1..3 patterns, every single fault position (an unreadable file is absent, a directory, or not UTF-8), commit on/off with a fake git, dry/real, v2 and legacy engine) "
                "replayed against the real `update` with the config file's own entry at a varying position and matching patterns occurring on 1..3 lines; quick: all cases up to 3 files + 500 sampled larger ones; "
                "non-trivial = cases with a fault" % maxf)
    for e in events[5:8]:
        ctx.sample(dict(what=e["dbg"], exit=e["exit"], changed=e["changed"]))
    ctx.assumptions += ["file order = configuration order (dict insertion order), one fault per run"]
