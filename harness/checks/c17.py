"""C17 - BUILD numbers grow numerically and lexically forever."""
import itertools
import random
from .. import tlc, drive, glue
from ..core import Machinery


def _one_step(start):
    from bumpver import v2version
    try:
        out = v2version.incr(start, "BUILD")
    except OverflowError:
        return [0, 0]
    return [0] if out is None else glue.cp(out)


def _one_step_batch(starts):
    return [(s, _one_step(s)) for s in starts]


def _chain(job):
    """chain of bumps through the CLI (`bumpver test <version> <pattern> [flags]`): incr_dispatch + gate + output.  BUILD is the last part of the
    pattern; whatever stands before it (other parts, bumped by the flags of the step) is carried along as the prefix"""
    import re
    start, steps, pattern, prefix = job[:4]
    flagsets = job[4] if len(job) > 4 else [[]]
    rng = random.Random(job[5] if len(job) > 5 else 0)
    rx = job[6] if len(job) > 6 else r"^(.*[^0-9])?([0-9]+)()$"       # prefix, BUILD, what follows BUILD (a tag with its number)
    suffix = job[7] if len(job) > 7 else ""
    evs = []
    b = start
    gen = False
    for k in range(steps):
        flags = flagsets[0] if (k == 0 and len(job) > 6) else rng.choice(flagsets)       # chains with a tag behind BUILD: the first step takes the job's first flag set
        if "--tag-num" in flags and not suffix:
            flags = []                      # --tag-num needs a non-final tag
        r = drive.cli(["test", prefix + b + suffix, pattern, "--date", "2021-01-01"] + flags)
        if r.exit != 0:
            # refusal: only legitimate at the documented maximum
            evs.append((b, [0, 0], gen, "exit=%s %s %s" % (r.exit, r.exc, " ".join(flags))))
            break
        new = r.new_version()
        m = re.match(rx, new or "")
        if not m:
            evs.append((b, [0], gen, "no output"))
            break
        prefix, n, suffix = m.group(1) or "", m.group(2), m.group(3)
        evs.append((b, glue.cp(n), gen, " ".join(flags)))
        b = n
        gen = True
    return evs


def run(ctx):
    K = ctx.pick(4, 5)
    depth = ctx.pick(12, 60)
    cfg = ("SPECIFICATION Spec\nCONSTANTS K = %d\n W = 7\n Depth = %d\nCONSTRAINT Bounded\nPROPERTY StepOK\n"
           "INVARIANT OverflowOnlyAtAllNines\nINVARIANT AlwaysDigits\nCHECK_DEADLOCK FALSE\n" % (K, depth))
    res = tlc.run(tlc.module_text("mc/MC_C17.tla"), cfg, name="MC_C17", workers=16, coverage=True, timeout=3000, xmx="8g")
    ctx.add_design(res, "MC_C17 K=%d depth=%d" % (K, depth))
    if res.violation:
        ctx.violation(dict(clause="design:" + res.violation), case=dict(trace=res.trace[-3:]), check="design")
    if res.coverage.get("Next", (0, 0))[1] == 0:
        raise Machinery("MC_C17: action Next never taken (vacuous)")

    # code -> spec, one step from every start of 1..K digits (library)
    starts = ["".join(t) for n in range(1, K + 1) for t in itertools.product("0123456789", repeat=n)]
    batches = [starts[i:i + 2000] for i in range(0, len(starts), 2000)]
    events = []
    for batch in drive.pmap(_one_step_batch, batches, hooks=False):
        for s, n in batch:
            events.append(dict(id=len(events) + 1, ev="build", b=glue.cp(s), n=n, generated=False, dbg=s))
    # plus a seeded sample of wider starts (5..7 digits, half of them zero-padded)
    rng0 = random.Random(ctx.seed + 17)
    wide = set()
    while len(wide) < ctx.pick(6000, 60000):
        w = rng0.randrange(5, 8)
        body = "".join(rng0.choice("0123456789") for _ in range(w))
        z = rng0.randrange(0, 3)
        wide.add("0" * z + body[z:] if rng0.random() < 0.5 else body)
    wide = sorted(wide)
    for batch in drive.pmap(_one_step_batch, [wide[i:i + 2000] for i in range(0, len(wide), 2000)], hooks=False):
        for s, n in batch:
            events.append(dict(id=len(events) + 1, ev="build", b=glue.cp(s), n=n, generated=False, dbg=s))
    ctx.count("one_step_events", len(events))

    # chains through the CLI, crossing every digit-length expansion
    rng = random.Random(ctx.seed)
    n_chains, steps = ctx.pick((24, 1500), (200, 10000))
    chain_starts = ["0997", "1997", "9990", "09997", "19997", "899997", "0099997", "7", "42", "999", "0001", "00012",
                    "8999997", "9899", "2999", "98997"]
    while len(chain_starts) < n_chains:
        w = rng.randrange(1, 8)
        chain_starts.append("".join(rng.choice("0123456789") for _ in range(w)))
    jobs = []
    # BUILD alone, behind a calendar part, and behind parts that the flags of a step move (every bump must still give a new, greater BUILD)
    moving = [[], [], ["--patch"], ["--minor"], ["--patch", "--pin-increments"], ["--pin-increments"], ["--major", "--pin-increments"]]
    for i, s in enumerate(chain_starts[:n_chains]):
        pat, pre, fl = [("BUILD", "", [[]]), ("vYYYY.BUILD", "v2021.", [[], ["--pin-increments"]]), ("MAJOR.MINOR.PATCH+BUILD", "1.0.2+", moving), ("BUILD", "", [[]]),
                        ("vMAJOR.MINOR.INC0.BUILD", "v1.9.7.", [f for f in moving if "--patch" not in f]), ("vYYYY.BLD", "v2021.", [[], ["--pin-increments"]])][i % 6]
        if "BLD" in pat:
            s = s.lstrip("0") or "7"           # BLD is the build number without padding: the same counter, the same growth
        jobs.append((s, steps, pat, pre, fl, ctx.seed * 1009 + i))
    # BUILD followed by a tag and its number: whatever the flags do to TAG / NUM, every bump gives a new, greater BUILD
    tagflags = [["--tag-num"], ["--tag", "final"], ["--tag", "rc"], ["--tag", "beta"], [], ["--tag-num", "--tag", "rc"], ["--tag", "alpha"]]
    k = 0
    for pat, pre, rx, sufs in (("vYYYY0M.BUILD[-TAG[NUM]]", "v202101.", r"^(v[0-9]{6}[.])([0-9]+)((?:-[a-z]+[0-9]*)?)$", ["-rc1", "-beta2", "-rc", ""]),
                               ("YYYY.BUILD[PYTAGNUM]", "2021.", r"^([0-9]{4}[.])([0-9]+)((?:[a-z]+[0-9]+)?)$", ["rc1", "b2", "a0", ""])):
        for suf in sufs:
            for fi in range(len(tagflags)):
                k += 1
                s = ["1996", "0997", "7", "09994", "29990", "1001"][k % 6]
                jobs.append((s, 4, pat, pre, tagflags[fi:] + tagflags[:fi], ctx.seed * 1009 + 500 + k, rx, suf))
    # the legacy spellings of the build number ({build_no}, {bid}: four digits or more), behind calendar parts
    for k, (pat, pre) in enumerate((("v{year}q{quarter}.{build_no}", "v2021q1."), ("{year}.{bid}", "2021."), ("{year}{month}.{build_no}", "202101."))):
        for st in ("0997", "1997", "09997", "9990", "1001"):
            jobs.append((st, min(steps, 40), pat, pre, [[]], ctx.seed * 1009 + 900 + k))
    n_chain_ev = 0
    for job, evs in zip(jobs, drive.pmap(_chain, jobs, hooks=False)):
        for b, n, gen, note in evs:
            events.append(dict(id=len(events) + 1, ev="build", b=glue.cp(b), n=n, generated=gen, dbg="%s chain from %s %s" % (job[2], job[0], note)))
            n_chain_ev += 1
            if len(glue.uncp(n) if n and n[0] else "") > len(b):
                ctx.nontriv(("expansion", len(b)))
    ctx.count("chain_events", n_chain_ev)
    ctx.count("chains", len(jobs))
    by_id = {e["id"]: e for e in events}
    fails, st = tlc.validate_events("Trace_Text", events, name="C17")
    ctx.add_trace(st, n_traces=len(jobs) + len(starts) + len(wide))
    ctx.evaluations = len(events)
    for e in events:
        ctx.nontriv(tuple(e["b"]))
    for f in fails:
        e = by_id[f["id"]]
        b = glue.uncp(e["b"])
        n = glue.uncp(e["n"]) if e["n"] and e["n"][0] else str(e["n"])
        if f["clause"] == "build:successor":
            # the code's successor differs from the spec's but still satisfies the property's order clauses
            ctx.divergence("successor differs from NextBuild", dict(b=b, n=n, spec=f["detail"]))
            continue
        ctx.violation(dict(clause=f["clause"], width=len(b), padded=b.startswith("0") and len(b) > 1),
                      case=dict(start=b, pattern="BUILD", generated=e["generated"], note=e["dbg"]),
                      expected=f["detail"], observed=n)
    ctx.rule = ("one bump from every digit string of length 1..%d (library) plus %d CLI chains of up to %d bumps (BUILD alone, behind a calendar part, spelled BLD, behind MAJOR/MINOR/PATCH/INC0 moved by --patch/--minor/--major/--pin-increments); "
                "distinct = distinct BUILD values bumped; every one is non-trivial (each exercises the successor)" % (K, len(jobs), steps))
    ctx.exhaustive = False
    ctx.sample(dict(start="0999", next=glue.uncp(by_id[starts.index("0999") + 1]["n"])))
    ctx.sample(dict(chain_from=jobs[0][0], first=[glue.uncp(e["n"]) for e in events[len(starts) + len(wide):len(starts) + len(wide) + 5]]))
    ctx.assumptions += ["lexid.next_id (third-party) is exercised through bumpver, not verified on its own",
                        "chains are bounded (%d bumps); widths up to 7 digits" % steps]
