"""C10 - VCS steps run only as configured, in order, and stop at the first failure."""
import os
import random
from .. import tlc, drive, glue, project, fakevcs
from ..core import Machinery

CFG_TRIPLES = [(False, False, False), (True, False, False), (True, True, False), (True, False, True), (True, True, True)]
FAILABLE = ["none", "fetch", "lstags", "status", "add", "commit", "tag", "push"]
FAKE_FAIL = {"fetch": ["fetch"], "lstags": ["ls_tags", "ls_tags_branch"], "status": ["status"], "add": ["add_path"], "commit": ["commit"],
             "tag": ["tag", "tag_light"], "push": ["push", "push_tag"], "none": []}
OLD = "1.2.3"


def random_conf(rng, tools):
    return dict(vcs=rng.choice(tools), cfg=list(rng.choice(CFG_TRIPLES)), fcommit=rng.choice(["unset", "unset", "yes", "no"]), ftag=rng.choice(["unset", "unset", "yes", "no"]),
                fpush=rng.choice(["unset", "unset", "yes", "no"]), pre=rng.choice(["absent", "ok", "fail", "unstartable"]), post=rng.choice(["absent", "ok", "fail", "unstartable"]), hooksrc=rng.choice(["config", "cli"]),
                dirty=rng.random() < 0.25, dirtypat=rng.random() < 0.15, allow=rng.random() < 0.4, tagmsg=rng.random() < 0.6, remote=rng.random() < 0.7, dry=rng.random() < 0.2, fetch=rng.random() < 0.7,
                failat=rng.choice(FAILABLE + ["none"] * 6), ignore=rng.random() < 0.2, unique=rng.random() < 0.25)


def replay(job):
    conf, seed = job
    tool = conf["vcs"]
    with drive.scratch_dir("c10") as d:
        proj = project.Project(os.path.join(d, "p"), vcs=tool, gitfile=(seed % 4 == 1))       # every fourth project is a linked worktree / submodule checkout
        fdir = os.path.join(d, "fake")
        fv = fakevcs.FakeVCS(fdir, tool)
        if tool == "git":
            fv.set(tags=["1.0.0", "junk"], tags_branch=["1.0.0"], status=(" M other.txt\n" if conf["dirty"] else "") + ([" M b.txt\n", "M  a.txt\n"][seed % 2] if conf.get("dirtypat") else ""),
                   branches=(["* main 1234abc [origin/main] msg\n", "  dev 111 [origin/dev] d\n* main 1234abc [upstream/main: ahead 1] msg\n"][seed % 2] if conf["remote"]
                             else ["* main 1234abc msg\n", "  dev 111 [origin/dev] d\n* main 1234abc msg\n"][seed % 2]),      # another branch tracks a remote, the current one does not
                   remote="", fail=FAKE_FAIL[conf["failat"]])
        else:
            fv.set(tags=["tip 3:abc", "1.0.0 2:def"], tags_branch=["1.0.0"], status=("M other.txt\n" if conf["dirty"] else "") + (["M b.txt\n", "M a.txt\n"][seed % 2] if conf.get("dirtypat") else ""),
                   remote="default = https://example.com/repo\n" if conf["remote"] else "", fail=FAKE_FAIL[conf["failat"]])
        extra = {}
        hooks = {}
        for which, key in (("pre", "pre_commit_hook"), ("post", "post_commit_hook")):
            if conf[which] != "absent":
                hp = os.path.join(proj.root, "%s_hook.sh" % which)
                # an unstartable hook exists (config and option validation accept it) but cannot be executed: no executable bit / no interpreter
                fakevcs.write_hook(hp, which, fdir, succeed=conf[which] == "ok", unstartable=(("noexec", "badinterp")[seed % 2] if conf[which] == "unstartable" else None), how=seed // 2)
                hooks[which] = "%s_hook.sh" % which
                if conf["hooksrc"] == "config":
                    extra[key] = "%s_hook.sh" % which
        extra["tag_message"] = "release {new_version}" if conf["tagmsg"] else ""
        c, t, p = conf["cfg"]
        # the same configuration in bumpver.toml, setup.cfg or pyproject.toml (after what other tools may have left there)
        proj.write(*project.config_file(["bumpver.toml", "bumpver.toml", "setup.cfg", "pyproject.toml"][seed % 4], OLD, "MAJOR.MINOR.PATCH", [("a.txt", ["{version}"]), ("b.txt", ["v={version}"])], commit=c, tag=t, push=p, extra=extra, variant=seed // 4))
        proj.write("a.txt", "version %s\n" % OLD)
        proj.write("b.txt", "x\nv=%s\n" % OLD)
        proj.write("other.txt", "unrelated\n")
        args = ["update"] + ([["-v"], ["-vv"]][seed % 2] if seed % 6 == 0 else []) + (["--set-version", "1.2.4"] if conf["unique"] else ["--patch"]) + (["--ignore-vcs-tag"] if conf["ignore"] else [])
        for flag, key in (("commit", "fcommit"), ("tag-commit", "ftag"), ("push", "fpush")):
            if conf[key] == "yes":
                args.append("--" + flag)
            elif conf[key] == "no":
                args.append("--no-" + flag)
        if conf["hooksrc"] == "cli":
            for which in hooks:
                args += ["--%s-commit-hook" % which, hooks[which]]
        if conf["allow"]:
            args.append("--allow-dirty")
        if conf["dry"]:
            args.append("--dry")
        if not conf["fetch"]:
            args.append("--no-fetch")
        before = {k: v for k, v in proj.snapshot().items() if not k.endswith("_hook.sh")}
        # a third of the runs start in an environment that already carries BUMPVER_* variables (a nested invocation from another project's hook, a CI job)
        ambient = {"BUMPVER_OLD_VERSION": "9.9.9", "BUMPVER_NEW_VERSION": "9.9.10"} if seed % 3 == 0 else {}
        r = drive.cli(args, cwd=proj.root, env=dict(fv.env(), **ambient))
        after = {k: v for k, v in proj.snapshot().items() if not k.endswith("_hook.sh")}
        raw = fv.log()
    log = []
    for e in raw:
        if e[0] == "cmd":
            log.append(dict(kind="cmd", name=e[1], old="", new=""))
        else:
            log.append(dict(kind="hook", name=e[1], old=e[2], new=e[3]))
    # a hook that could not be started left no marker of its own: that bumpver ATTEMPTED it is taken from bumpver's hook.start event (the run must
    # end there, so the attempt is the last entry; if the run went on, the entries after it make the log differ from the expected one)
    for which in ("pre", "post"):
        if conf[which] == "unstartable":
            for e in r.events:
                if e.get("ev") == "hook.start" and ("%s_hook" % which) in (e.get("path") or ""):
                    log.append(dict(kind="hook", name=which, old=e.get("old") or "", new=e.get("new") or ""))
    # what the env-guarded hooks inside bumpver recorded, as step names (the stateful trace spec consumes them with the actions of Pipeline.tla)
    hooked = []
    for e in r.events:
        if e.get("ev") == "vcs.cmd":
            nm = {"fetch": "fetch", "ls_tags": "lstags", "ls_tags_branch": "lstags", "status": "status", "add_path": "add", "commit": "commit", "tag": "tag", "tag_light": "tag_light",
                  "push": "push", "push_tag": "push_tag"}.get(e.get("name"))
            if nm:
                hooked.append(nm)
        elif e.get("ev") == "hook.start":
            hooked.append("prehook" if "pre_hook" in (e.get("path") or "") else "posthook")
        elif e.get("ev") == "rewrite.write":
            hooked.append("write")
    objs = [dict(name=e[1], argv=list(e[2])) for e in raw if e[0] == "cmd" and e[1] in ("commit", "tag", "tag_light", "push", "push_tag")]
    return dict(ev="steps", case=conf, exit=r.exit, changed=before != after, log=log, old=OLD, new="1.2.4", exc=r.exc or "", hooked=hooked, objs=objs, remote_name=["origin", "upstream"][seed % 2],
                dbg="%s: bumpver %s" % ({k: v for k, v in conf.items() if v not in (False, "unset", "absent", "none")}, " ".join(args)))


def _invalid_cfg(job):
    """config triples the loader must reject: tag or push without commit -> exit 1, nothing happens"""
    t, p = job
    with drive.scratch_dir("c10x") as d:
        proj = project.Project(os.path.join(d, "p"), vcs="git")
        fv = fakevcs.FakeVCS(os.path.join(d, "fake"))
        fv.set(tags=[], status="", branches="", remote="")
        proj.write("bumpver.toml", project.bumpver_toml(OLD, "MAJOR.MINOR.PATCH", [("a.txt", ["{version}"])], commit=False, tag=t, push=p))
        proj.write("a.txt", "version %s\n" % OLD)
        before = proj.snapshot()
        r = drive.cli(["update", "--patch"], cwd=proj.root, env=fv.env())
        return (t, p, r.exit, before != proj.snapshot(), [e[1] for e in fv.log() if e[0] == "cmd" and e[1] not in ("is_usable",)])


def run(ctx):
    drive.setup(hooks=False)
    tools = ctx.pick(["git"], ["git", "hg"])
    res = tlc.run(tlc.module_text("mc/MC_C10.tla"), "SPECIFICATION Spec\nCONSTANTS Tools = {%s}\n Extras = %s\n HookKinds = %s\nINVARIANT StepsAsConfigured\nINVARIANT ExpectedAgrees\nCHECK_DEADLOCK FALSE\n"
                  % (", ".join('"%s"' % t for t in tools), ctx.pick("{FALSE}", "{FALSE, TRUE}"), '{"absent", "ok", "fail"}'), name="MC_C10", workers=16, timeout=6000, xmx="16g")          # ("unstartable" is the same as "fail" to the machine: HookFails; it is exercised by the conformance cases)
    ctx.add_design(res, "MC_C10 full configuration product for %s (5 config triples x 27 flag sets x %d hook pairs x 2 hook sources x 2^7 x 8 failure points)" % ("/".join(tools), 9))
    if res.violation:
        ctx.violation(dict(clause="design:" + res.violation), case=dict(state=res.trace[-1:]), check="design")
    if res.distinct < 10 ** 6:
        raise Machinery("MC_C10 explored only %d states" % res.distinct)
    ctx.exhaustive = True
    # ---- spec -> code: configurations of the lattice replayed with the fake git / hg
    rng = random.Random(ctx.seed)
    confs = []
    for tr in CFG_TRIPLES:                       # systematic: every config triple x every tri-state flag combination, otherwise plain
        for a in ("unset", "yes", "no"):
            for b in ("unset", "yes", "no"):
                for c in ("unset", "yes", "no"):
                    confs.append(dict(vcs="git", cfg=list(tr), fcommit=a, ftag=b, fpush=c, pre="absent", post="absent", hooksrc="config", dirty=False, allow=False,
                                      tagmsg=True, remote=True, dry=False, fetch=True, failat="none", ignore=False, unique=False))
    for pre, post in (("unstartable", "ok"), ("ok", "unstartable"), ("unstartable", "unstartable"), ("fail", "unstartable")):     # hooks that exist but cannot be run
        for src in ("config", "cli"):
            for k in (0, 1):
                confs.append(dict(vcs="git", cfg=[True, True, True], fcommit="unset", ftag="unset", fpush="unset", pre=pre, post=post, hooksrc=src, dirty=False, allow=False,
                                  tagmsg=True, remote=True, dry=False, fetch=False, failat="none", ignore=False, unique=False))
    for f in FAILABLE:                           # every failure point with everything switched on, both hooks present
        for tool in ("git", "hg"):
            confs.append(dict(vcs=tool, cfg=[True, True, True], fcommit="unset", ftag="unset", fpush="unset", pre="ok", post="ok", hooksrc="cli", dirty=False, allow=False,
                              tagmsg=True, remote=True, dry=False, fetch=True, failat=f, ignore=False, unique=False))
    for no_fetch in (True, False):               # --no-fetch / --ignore-vcs-tag with and without an active uniqueness check, remote present
        for ig in (True, False):
            for un in (True, False):
                for tool in ("git", "hg"):
                    confs.append(dict(vcs=tool, cfg=[True, True, True], fcommit="unset", ftag="unset", fpush="unset", pre="absent", post="absent", hooksrc="cli", dirty=False,
                                      allow=False, tagmsg=True, remote=True, dry=False, fetch=not no_fetch, failat="none", ignore=ig, unique=un))
    for _ in range(ctx.pick(1500, 100000)):
        confs.append(random_conf(rng, ["git", "git", "hg"]))
    events = drive.pmap(replay, [(c, i) for i, c in enumerate(confs)], hooks=True, chunksize=10)
    for i, e in enumerate(events):
        e["id"] = i + 1
    fails, st = tlc.validate_events("Trace_Update", [{k: v for k, v in e.items() if k not in ("exc", "dbg", "hooked")} for e in events], name="C10")
    ctx.add_trace(st)
    by_id = {e["id"]: e for e in events}
    for f in fails:
        e = by_id[f["id"]]
        ctx.violation(dict(clause=f["clause"], vcs=e["case"]["vcs"], failat=e["case"]["failat"], dry=e["case"]["dry"]),
                      case=dict(what=e["dbg"], exit=e["exit"], log=[(x["kind"], x["name"]) for x in e["log"]], exc=e["exc"][:200]), expected=f["detail"])
    # stateful validation: the hook events of every run are consumed by the actions of Pipeline.tla (order of the file rewrite relative to
    # the dirty check and the pre-commit hook is only visible here)
    runs = [dict(conf=e["case"], exit0=e["exit"] == 0, changed=e["changed"], events=e["hooked"]) for e in events]
    rejected, st2 = tlc.validate_runs("Trace_Pipeline", runs, name="C10s")
    ctx.add_trace(st2)
    ctx.count("runs_followed_by_the_step_machine", len(runs) - len(rejected))
    for idx, line in rejected:
        e = events[idx]
        ctx.violation(dict(clause="pipeline:trace-rejected", vcs=e["case"]["vcs"], failat=e["case"]["failat"], dry=e["case"]["dry"]),
                      case=dict(what=e["dbg"], hook_events=e["hooked"], stuck_at_event=line, exit=e["exit"]))
    for t, p, exit_, changed, cmds in drive.pmap(_invalid_cfg, [(True, False), (False, True), (True, True)], hooks=False):
        if exit_ == 0 or changed or any(c in ("add_path", "commit", "tag", "tag_light", "push", "push_tag", "fetch") for c in cmds):
            ctx.violation(dict(clause="config-contradiction-not-rejected-first", tag=t, push=p), case=dict(exit=exit_, changed=changed, cmds=cmds))
    ctx.count("replayed_configurations", len(events))
    ctx.count("replayed_hg", sum(1 for e in events if e["case"]["vcs"] == "hg"))
    ctx.count("replayed_with_failure", sum(1 for e in events if e["case"]["failat"] != "none"))
    if True:
        from . import hooktrace as _ht
        _ht.apply(ctx, ("update",), ("order:",))      # the repository's own tests, recorded through the hooks
    ctx.evaluations = len(events)
    for e in events:
        ctx.nontriv(e["dbg"])
    ctx.rule = ("design: the whole product explored by TLC; replay: all 135 (config triple x tri-state flags) combinations, every failure point with everything on for git and hg, and "
                "seeded random configurations of the lattice, each run through the real `update` with fake git/hg and generated hook scripts; non-trivial = distinct configurations")
    for e in events[140:143]:
        ctx.sample(dict(what=e["dbg"], exit=e["exit"], log=[x["name"] for x in e["log"] if x["name"] not in ("is_usable", "ls_branches", "show_remotes")]))
    ctx.assumptions += ["git and hg are fakes that record argv and answer from canned files: order and gating of commands are checked, not their effect on a repository (no hg binary here)"]
