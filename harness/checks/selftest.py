"""Self-test of the binding (DESIGN.md 4.1): for every event kind a handful of events recorded from the REAL code are validated
twice - as recorded (must be accepted) and with one recorded field corrupted (must be rejected, naming a clause).  A trace spec
that accepted a corrupted observation would bind nothing.  `./check selftest`; not a property check (exit 2 on any miss)."""
import copy
import random
import datetime as dt
from .. import tlc, drive, glue, corpus
from ..core import Machinery
from . import c02, c03, c05, c06, c09, c10, c11, c12, c13, c14, c16, c17, c18, c19, c20


def bump_text(cps):
    """change one code point of a text"""
    if not cps or cps == [0] or cps == [0, 0]:
        return [49, 46, 50]
    out = list(cps)
    out[-1] = 57 if out[-1] != 57 else 56
    return out


def run(ctx):
    drive.setup(hooks=False)
    rng = random.Random(ctx.seed)
    suites = []     # (trace module, kind, good events, corrupted events, shared)

    # ---- Trace_Text
    good = []
    for s in ("0997", "1999", "09998", "42"):
        good.append(dict(ev="build", b=glue.cp(s), n=c17._one_step(s), generated=False, dbg=s))
    bad = [dict(e, n=bump_text(e["n"])) for e in good]
    suites.append(("Trace_Text", "build", good, bad, None))
    good = [e for e in (c05._case((p, dict(major=1, minor=9, patch=9, bid="1999", tag="beta", num=1, inc0=9, inc1=10), dt.date(2021, 7, 29), corpus.random_flags(rng, p), dt.date(2021, 9, 1), m))
                        for p in c05.DESIGN_CORE for m in ("cli", "lib")) if e and e["out"][0] != 0]
    good = [{k: v for k, v in e.items() if k not in ("exc", "exit", "pat")} for e in good]
    suites.append(("Trace_Text", "incr", good, [dict(e, out=bump_text(e["out"])) for e in good], None))
    good = [c02._rt((p, corpus.random_state_kw(rng), dt.date(2021, 7, 29))) for p in c05.DESIGN_CORE]
    good = [{k: v for k, v in e.items() if k not in ("pat", "week53", "exc")} for e in good if e["text"]]
    suites.append(("Trace_Text", "rt", good, [dict(e, again=bump_text(e["again"])) for e in good], None))
    good = [{k: v for k, v in e.items() if k != "pat"} for e in c14._mono_batch(("YYYY.MM.DD", True, [738000, 738155, 738156]))]
    suites.append(("Trace_Text", "mono", good, [dict(e, lower=not e["lower"]) for e in good], None))
    good = c14._cal_batch([738000, 738155])
    suites.append(("Trace_Text", "calinfo", good, [dict(e, c=dict(e["c"], week_w=e["c"]["week_w"] + 1)) for e in good], None))
    cases = [c09.gen_case(rng, "MAJOR.MINOR.PATCH", 5) for _ in range(6)]
    keep = ("ev", "P", "cfgver", "all", "branch", "scope", "uscope", "ignore", "show", "show_clean", "old", "new", "exit", "exit_clean", "today")
    good = [{k: e[k] for k in keep} for e in (c09.replay((c, i)) for i, c in enumerate(cases))]
    suites.append(("Trace_Text", "resolve", good, [dict(e, show=bump_text(e["show"])) for e in good], None))

    # ---- Trace_Pep
    texts = ["1.0", "1.0.post1", "1.0a1", "v2017q1.54321", "1.0-0", "2021.1001b0"]
    ev = c16._eval(("cmp", texts, [(0, 1), (2, 0), (3, 0), (4, 0), (5, 5)])) + c16._eval(("text", texts, [0, 1, 4]))
    shared = {"TEXTS_FILE": [dict(t=glue.cp(t)) for t in texts]}
    badp = [dict(e, lt=not e["lt"], gt=e["lt"]) if e["ev"] == "cmp" and not e["eq"] else (dict(e, canon=bump_text(e["canon"])) if e["ev"] == "text" else dict(e, eq=False, lt=True, le=True)) for e in ev]
    suites.append(("Trace_Pep", "cmp/text", ev, badp, shared))

    # ---- Trace_Legacy
    good = [{k: v for k, v in c20._rt((p, dt.date(2021, 3, 9), dict(major=1, minor=2, patch=3, bid="1001", tag="beta"))).items() if k != "pat"} for p in c20.PATS[:6]]
    suites.append(("Trace_Legacy", "rt1", good, [dict(e, again=bump_text(e["again"])) for e in good], None))

    # ---- Trace_Rewrite
    evs = []
    for seed in range(8):
        e2, _f = c03.run_layout((seed + 500, dict(gen=dict())))
        evs += [{k: v for k, v in e.items() if k not in ("file", "seed", "dbg")} for e in e2 if e["ok"]]
    evs = evs[:10]
    suites.append(("Trace_Rewrite", "rewrite", evs, [dict(e, new=e["new"] + [120]) for e in evs], None))
    dv = []
    for seed in range(6):
        e2, _f = c13.run_pair((seed + 900, dict()))
        dv += [{k: v for k, v in e.items() if k not in ("seed", "file", "dbg", "changed")} for e in e2 if e["changed"]]
    dv = dv[:8]
    suites.append(("Trace_Rewrite", "diff", dv, [dict(e, real=e["real"] + [120]) for e in dv], None))

    # ---- Trace_Update
    case = dict(n=2, pats=[1, 2], fault=dict(kind="nomatch", k=2, j=1), commit=True, dry=False, engine="v2", exit_zero=False, written=[], log=[])
    g = c06.replay((case, 1))
    g = {k: v for k, v in g.items() if k not in ("exc", "dbg", "cfg_pos")}
    suites.append(("Trace_Update", "fault", [g], [dict(g, changed=[1])], None))
    conf = dict(vcs="git", cfg=[True, True, True], fcommit="unset", ftag="unset", fpush="unset", pre="ok", post="ok", hooksrc="cli", dirty=False, allow=False, tagmsg=True, remote=True, dry=False, fetch=True,
                failat="none", ignore=False, unique=False)
    g = {k: v for k, v in c10.replay((conf, 1)).items() if k not in ("exc", "dbg")}
    no_hook = dict(g, log=[x for x in g["log"] if not (x["kind"] == "hook" and x["name"] == "post")])        # a removed step / hook marker
    swapped = dict(g, log=[x for x in g["log"] if x["name"] != "commit"] + [x for x in g["log"] if x["name"] == "commit"])
    suites.append(("Trace_Update", "steps", [g, g], [no_hook, swapped], None))
    evs, _f = c12.case((77, "git"))
    evs = [{k: v for k, v in e.items() if k not in ("dbg", "expect_path_in")} for e in evs]
    suites.append(("Trace_Update", "argv", evs, [dict(e, argv=e["argv"] + [[120]]) for e in evs], None))
    g = c11.build(([("pat.txt", True, " M"), ("other.txt", False, "clean")], True, 1, "clean"))
    g = {k: v for k, v in g.items() if k not in ("dbg", "exc", "committed", "states", "spelled", "subdir", "not_committing")}
    suites.append(("Trace_Update", "dirty", [g], [dict(g, exit=0)], None))

    # ---- Trace_Config
    lay = dict(zip(c19.CANDS, ["absent", "unrelated", "absent", "unrelated", "section"]))
    g = {k: v for k, v in c19.case((lay, ["README.md"], 5)).items() if k not in ("dbg", "exc", "year_stable", "dry_named")}
    suites.append(("Trace_Config", "init", [g], [dict(g, prefix_ok=False)], None))
    A = c18.gen_abstract(random.Random(3))
    g = {k: v for k, v in c18.load_case((A, 0, 3)).items() if k not in ("dbg", "group", "show_exit", "show_out", "text")}
    if g["loaded"]["valid"]:
        suites.append(("Trace_Config", "load", [g], [dict(g, loaded=dict(g["loaded"], commit=not g["loaded"]["commit"]))], None))

    misses = []
    n_ok = 0
    for mod, kind, good, bad, shared in suites:
        for label, evs, expect_fail in (("as recorded", good, False), ("corrupted", bad, True)):
            evs = [dict(copy.deepcopy(e), id=i + 1) for i, e in enumerate(evs)]
            fails, st = tlc.validate_events(mod, evs, name="selftest", shared=shared)
            ctx.add_trace(st)
            failed = set(f["id"] for f in fails if not f["clause"].startswith("skip:") and f["clause"] not in ("incr:refusal", "incr:divergence"))
            for e in evs:
                if (e["id"] in failed) != expect_fail:
                    misses.append("%s/%s event %d %s: %s" % (mod, kind, e["id"], label, "rejected" if e["id"] in failed else "accepted"))
                else:
                    n_ok += 1
        ctx.count("kind_" + kind.replace("/", "_"), len(good))
    ctx.count("events_behaving_as_required", n_ok)
    ctx.evaluations = n_ok
    ctx.nontriv("a"); ctx.nontriv("b")
    ctx.sample(dict(kinds=[k for _m, k, _g, _b, _s in suites]))
    ctx.rule = "for every event kind: events recorded from the real code must be accepted as recorded and rejected with one field corrupted"
    if misses:
        raise Machinery("binding self-test failed: " + "; ".join(misses[:8]))
