"""C19 - `init` always produces a configuration that bumpver itself can use."""
import os
import random
import itertools
import datetime as dt
from .. import tlc, drive, glue, project
from ..core import Machinery

CANDS = ["pycalver.toml", "bumpver.toml", ".bumpver.toml", "pyproject.toml", "setup.cfg"]
EXTRA = ["README.md", "README.rst", "setup.py"]
# unrelated prior content: several variants per file - tables of other tools ([tool.black], bump2version's [bumpversion] with a current_version of its own),
# a key called current_version elsewhere; none of them is a bumpver section
UNRELATED = {"setup.cfg": ["[metadata]\nname = demo\n\n[options]\nzip_safe = False\n", "[bumpversion]\ncurrent_version = 1.4.2\ncommit = True\n\n[bumpversion:file:setup.py]\n",
                           "[tool:pytest]\naddopts = -q\n", "[metadata]\nname: demo\nversion: attr: demo.__version__\n\n[flake8]\nmax-line-length: 100\n"],      # the other INI spelling, name: value
             "pyproject.toml": ["[build-system]\nrequires = [\"setuptools\"]\n\n[tool.black]\nline-length = 100\n", "[tool.bumpversion]\ncurrent_version = \"1.4.2\"\n", "[project]\nname = \"demo\"\nversion = \"0.1\"\n"],
             "bumpver.toml": ["[other]\nkey = 1\n", "[tool.black]\nline-length = 100\n", "[other]\ncurrent_version = \"1\"\n"],
             ".bumpver.toml": ["# nothing yet\n[misc]\nx = \"y\"\n", "[tool.isort]\nprofile = \"black\"\n\n[tool.black]\nline-length = 100\n"],
             "pycalver.toml": ["[something]\nelse = true\n", "[tool.poetry]\nname = \"demo\"\n", "[bumpversion]\ncurrent_version = \"1.4.2\"\n"]}
SECTION = {"setup.cfg": "[metadata]\nname = demo\n\n[bumpver]\ncurrent_version = 2020.1001\nversion_pattern = YYYY.BUILD[-TAG]\n",
           "pyproject.toml": "[tool.bumpver]\ncurrent_version = \"2020.1001\"\nversion_pattern = \"YYYY.BUILD[-TAG]\"\n",
           "bumpver.toml": "[bumpver]\ncurrent_version = \"2020.1001\"\nversion_pattern = \"YYYY.BUILD[-TAG]\"\n",
           ".bumpver.toml": "[bumpver]\ncurrent_version = \"2020.1001\"\nversion_pattern = \"YYYY.BUILD[-TAG]\"\n",
           "pycalver.toml": "[pycalver]\ncurrent_version = \"v202010.1001\"\nversion_pattern = \"{pycalver}\"\n"}


BIG = "".join("# line %04d of a long hand-written preamble ........................................\n" % k for k in range(90))       # ~7 KiB


def content(rng, f, cls, variant=None):
    if cls == "empty":
        return b""
    if cls == "section" and rng.random() < 0.15:
        return (BIG + SECTION[f]).encode("utf-8")           # the section far down in a big file
    text = (rng.choice(UNRELATED[f]) if variant is None else UNRELATED[f][variant % len(UNRELATED[f])]) if cls == "unrelated" else SECTION[f]
    if cls == "section" and rng.random() < 0.3:
        # the keys of the section in another order (version_pattern, whose value holds a bracket, before current_version), a commented line between them
        ls = text.rstrip("\n").split("\n")
        text = "\n".join(ls[:-2] + [ls[-1], "# [not a table] just a remark", ls[-2]]) + "\n"
    style = rng.choice(["lf", "lf", "crlf", "nonl", "crlf-nonl", "comment"])
    if "nonl" in style:
        text = text.rstrip("\n")
    if style == "comment":
        text = "# project settings\n" + text + "\n\n"
    if "crlf" in style:
        text = text.replace("\n", "\r\n")
    return text.encode("utf-8")


def case(job):
    lay, extras, seed = job[:3]
    variant = job[3] if len(job) > 3 else None
    rng = random.Random(seed)
    year = None
    with drive.scratch_dir("c19") as d:
        proj = project.Project(os.path.join(d, "p"), vcs=None)
        for f, cls in lay.items():
            if cls != "absent":
                proj.write(f, content(rng, f, cls, variant))
        for f in extras:
            proj.write(f, {"README.md": "# demo\n", "README.rst": "demo\n====\n", "setup.py": "from setuptools import setup\nsetup(name='demo', version='0')\n"}[f])
        snaps = [proj.snapshot()]
        runs = []
        from bumpver import utils, version
        # a quarter of the cases run on a pinned day around New Year, where the ISO week-numbering year and the calendar year differ (the initial version carries the calendar year)
        real_now, real_today = utils.now, version.TODAY
        if seed % 4 == 0:
            day = [dt.datetime(2024, 12, 30, 12), dt.datetime(2027, 1, 1, 12), dt.datetime(2025, 12, 31, 12), dt.datetime(2028, 1, 2, 12)][(seed // 4) % 4]
            utils.now = lambda: day
            version.TODAY = day.date()
        try:
            y0 = utils.now().year
            for args in (["init", "--dry"], ["init"], ["show", "--no-fetch"], ["init"]):
                runs.append(drive.cli(args, cwd=proj.root))
                snaps.append(proj.snapshot())
            y1 = utils.now().year
        finally:
            utils.now, version.TODAY = real_now, real_today
    changed = []
    prefix_ok = True
    for a, b in zip(snaps, snaps[1:]):
        ch = sorted(k for k in set(a) | set(b) if a.get(k) != b.get(k))
        changed.append(ch)
        for k in ch:
            if not b.get(k, b"").startswith(a.get(k, b"")):
                prefix_ok = False
    named = ""
    for ln in runs[1].stdout.splitlines():
        if ln.startswith("Updated "):
            named = ln[len("Updated "):].strip()
    dry_named = ""
    for ln in runs[0].stdout.splitlines():
        if "Would have written to " in ln:
            dry_named = ln.split("Would have written to ", 1)[1].rstrip(":").strip()
    shown = ""
    for ln in runs[2].stdout.splitlines():
        if ln.startswith("Current Version: "):
            shown = ln[len("Current Version: "):]
    return dict(ev="init", lay=lay, exits=[r.exit for r in runs], changed1=changed[0], changed2=changed[1], changed3=changed[2], changed4=changed[3], prefix_ok=prefix_ok,
                named=named, dry_named=dry_named, shown=shown, initial="%d.1001-alpha" % y0, year_stable=(y0 == y1), exc=[r.exc for r in runs if r.exc],
                dbg="layout=%s extras=%s seed=%s -> exits=%s written=%s named=%r shown=%r" % ({k: v for k, v in lay.items() if v != "absent"}, extras, seed, [r.exit for r in runs], changed[1], named, shown))


def run(ctx):
    drive.setup(hooks=False)
    res = tlc.run(tlc.module_text("mc/MC_C19.tla"), "INIT Init\nNEXT Next\nINVARIANT DryWritesNothing\nINVARIANT AppendOnlyOneFile\nINVARIANT ShowReadsBack\nINVARIANT SecondInitRefuses\n"
                  "INVARIANT ConfiguredFilePreferred\nINVARIANT ExpectationAgrees\nCHECK_DEADLOCK FALSE\n", name="MC_C19", workers=16, timeout=3000)
    ctx.add_design(res, "MC_C19 all 4^5 layouts x (init --dry; init; show; init)")
    if res.violation:
        ctx.violation(dict(clause="design:" + res.violation), case=dict(state=res.trace[-1:]), check="design")
    if res.distinct != 5120:
        raise Machinery("MC_C19 explored %d states, expected 5120" % res.distinct)
    rng = random.Random(ctx.seed)
    jobs = []
    classes = ["absent", "empty", "unrelated", "section"]
    all_layouts = [dict(zip(CANDS, combo)) for combo in itertools.product(classes, repeat=5)]
    all_extras = [[e for e, bit in zip(EXTRA, bits) if bit] for bits in itertools.product([0, 1], repeat=3)]
    if ctx.quick:
        for lay in all_layouts:                            # every layout once, with a seeded choice of the other project files
            jobs.append((lay, rng.choice(all_extras), len(jobs) + ctx.seed * 100000))
        for ex in all_extras:                              # the 2^8 presence subsets with one content class each
            for bits in itertools.product([0, 1], repeat=5):
                jobs.append((dict(zip(CANDS, ["unrelated" if b else "absent" for b in bits])), ex, len(jobs) + ctx.seed * 100000))
    else:
        for lay in all_layouts:
            for ex in all_extras:
                for rep in range(2):
                    jobs.append((lay, ex, len(jobs) + ctx.seed * 100000))
    # every variant of unrelated prior content, for every candidate file alone and next to an empty higher-ranked one
    for f in CANDS:
        for v in range(max(len(x) for x in UNRELATED.values())):
            jobs.append((dict({c: "absent" for c in CANDS}, **{f: "unrelated"}), [], len(jobs) + ctx.seed * 100000, v))
            jobs.append((dict({c: "absent" for c in CANDS}, **{f: "unrelated", "setup.cfg": "unrelated"}), ["README.md"], len(jobs) + ctx.seed * 100000, v))
    events = drive.pmap(case, jobs, hooks=False, chunksize=20)
    events = [e for e in events if e["year_stable"]]
    for i, e in enumerate(events):
        e["id"] = i + 1
    fails, st = tlc.validate_events("Trace_Config", [{k: v for k, v in e.items() if k not in ("dbg", "exc", "year_stable", "dry_named")} for e in events], name="C19")
    ctx.add_trace(st)
    by_id = {e["id"]: e for e in events}
    for f in fails:
        e = by_id[f["id"]]
        ctx.violation(dict(clause=f["clause"]), case=dict(what=e["dbg"], exc=[x[:160] for x in e["exc"]]), expected=f["detail"])
    ctx.count("layouts_run", len(events))
    ctx.count("init_wrote", sum(1 for e in events if e["changed2"]))
    ctx.exhaustive = True
    ctx.evaluations = len(events)
    for e in events:
        ctx.nontriv(e["dbg"])
    ctx.rule = ("every one of the 4^5 content-class layouts of the five config-capable files (content in LF / CRLF / without final newline / with comments, seeded) x subsets of "
                "README.md, README.rst, setup.py (quick: one seeded subset per layout plus all 2^8 presence subsets; thorough: all 8,192 x 2 content draws), four commands each; "
                "bytes of every file compared after each command; non-trivial = distinct layouts")
    for e in events[100:103]:
        ctx.sample(dict(what=e["dbg"]))
    ctx.assumptions += ["'unrelated content' is valid content of the file's format without a bumpver section", "the year does not change during a case (cases spanning New Year are dropped)"]
