"""C09 - the current version is the greatest matching tag in scope."""
import os
import random
import subprocess as sp
import datetime as dt
from .. import tlc, drive, glue, project, fakevcs
from ..core import Machinery

PATTERNS = {
    "MAJOR.MINOR.PATCH": dict(valid=["1.2.2", "1.2.3", "1.2.4", "1.2.10", "1.3.0", "0.9.9", "2.0.0"], respell=["1.2.03", "01.2.3", "1.2.010"], other=["v1.2.9", "1.2", "2021.1001", "1.2.3-beta"],
                              impossible=[], flags=["--patch"]),
    "vYYYY0M.BUILD[-TAG]": dict(valid=["v202101.1001", "v202101.1002-beta", "v202012.0999", "v202102.1003", "v202101.1002"], respell=[], other=["202101.1001", "v2021.1001", "1.2.3"],
                                impossible=["v202113.1001", "v202100.1001"], flags=[]),
    "YYYY.0M.0D": dict(valid=["2020.02.28", "2020.03.01", "2021.01.05", "2019.12.31"], respell=[], other=["2020.2.28", "v2020.02.28", "20.02.28"],
                       impossible=["2020.02.30", "2021.02.29", "2021.04.31"], flags=[]),
    "vMAJOR.MINOR[.PATCH]": dict(valid=["v1.2", "v1.2.1", "v1.3", "v1.10", "v0.9.9"], respell=["v1.2.0", "v1.02", "v01.2"], other=["1.2", "v1", "v1.2.3.4"], impossible=[], flags=["--minor"]),
}
JUNK = ["junk", "release-1", "v", "", "latest", "1.2.3x", "x1.2.3", "tip", "v202101.1001junk", "2020.02.28x", "é", "1.2.3-", "1..3", "1.2.3.4.5"]      # tag names never contain blanks
DATE = "2021-06-15"


def gen_case(rng, pat, max_tags):
    spec = PATTERNS[pat]
    pool = spec["valid"] + spec["respell"]
    cfgver = rng.choice(spec["valid"])
    k = rng.randrange(0, max_tags + 1)
    tags = []
    for _ in range(k):
        r = rng.random()
        if r < 0.55:
            tags.append(rng.choice(pool))
        elif r < 0.7:
            tags.append(rng.choice(spec["other"]))
        elif r < 0.8 and spec["impossible"]:
            tags.append(rng.choice(spec["impossible"]))
        else:
            tags.append(rng.choice([j for j in JUNK if j]))
    tags = list(dict.fromkeys(tags))
    rng.shuffle(tags)
    branch = [t for t in tags if rng.random() < 0.6]
    return dict(pat=pat, cfgver=cfgver, all=tags, branch=branch, scope=rng.choice(["default", "global", "branch"]), ignore=rng.random() < 0.2,
                cli_scope=(rng.choice(["default", "global", "branch"]) if rng.random() < 0.35 else None), fetch_fails=rng.random() < 0.12,
                setver=(rng.choice(pool) if rng.random() < 0.25 else None), flags=spec["flags"])


def _run_fake(case, tags_all, tags_branch, d):
    proj = project.Project(os.path.join(d, "p"), gitfile=(len(case["all"]) % 3 == 1))       # some projects are linked worktree / submodule checkouts (.git is a file)
    fv = fakevcs.FakeVCS(os.path.join(d, "fake"))
    if case.get("fetch_fails"):
        # a remote is configured, fetching is on and the fetch fails: the run may stop, it must not go on as if there were no tags
        fv.set(tags=tags_all, tags_branch=tags_branch, status="", remote="", branches="* main 1234abc [origin/main] msg\n", fail=["fetch"])
    else:
        fv.set(tags=tags_all, tags_branch=tags_branch, status="", remote="", branches="")
    k = len(case["all"]) + len(case["cfgver"])
    # one case in five: every tag is on the remote only (pushed from another clone, pointing at commits this clone has) until the fetch that show / update do by default
    # (not under --ignore-vcs-tag: the run then does not fetch at all, and its uniqueness check sees the local tags only - observation S25)
    remote_only = k % 5 == 2 and not case.get("fetch_fails") and not case["ignore"]
    def to_remote():
        fv.set(tags=[], tags_branch=[], tags_remote=tags_all, tags_branch_remote=tags_branch, status="", remote="", branches="* main 1234abc [origin/main] msg\n")
    if remote_only:
        to_remote()
    proj.write(*project.config_file(["bumpver.toml", "bumpver.toml", "setup.cfg", "pyproject.toml"][k % 4], case["cfgver"], case["pat"], [("f.txt", ["{version}"])], extra={"tag_scope": case["scope"]}, variant=k // 4))
    proj.write("f.txt", "v %s\n" % case["cfgver"])
    nofetch = [] if (case.get("fetch_fails") or remote_only) else ["--no-fetch"]
    r1 = drive.cli(["show"] + nofetch + (["--ignore-vcs-tag"] if case["ignore"] else []), cwd=proj.root, env=fv.env())
    shown = None
    for ln in r1.stdout.splitlines():
        if ln.startswith("Current Version: "):
            shown = ln[len("Current Version: "):]
    args = ["update", "--dry"] + nofetch + ["--date", DATE] + (["--ignore-vcs-tag"] if case["ignore"] else [])
    args += (["--tag-scope", case["cli_scope"]] if case.get("cli_scope") else [])
    args += (["--set-version", case["setver"]] if case["setver"] else case["flags"])
    if remote_only:
        to_remote()          # (the update starts from the same situation as the show before it)
    r2 = drive.cli(args, cwd=proj.root, env=fv.env())
    import shutil
    shutil.rmtree(proj.root); shutil.rmtree(os.path.join(d, "fake"))
    return r1, shown, r2, args


def replay(job):
    case, seed = job
    from bumpver import v2version
    with drive.scratch_dir("c09") as d:
        r1, shown, r2, args = _run_fake(case, case["all"], case["branch"], d)
        # the same with every tag removed that is not a valid version of the pattern (decided by the code under test only for SELECTION of what to remove:
        # the spec re-derives validity itself and compares the two observations)
    def valid(t):
        try:
            return v2version.is_valid(t, case["pat"])
        except Exception:  # pylint:disable=broad-except
            return False
    with drive.scratch_dir("c09") as d:
        c1, shown_clean, c2, _ = _run_fake(case, [t for t in case["all"] if valid(t)], [t for t in case["branch"] if valid(t)], d)
    return dict(ev="resolve", P=glue.parse_pattern(case["pat"]), cfgver=glue.cp(case["cfgver"]), all=[glue.cp(t) for t in case["all"]], branch=[glue.cp(t) for t in case["branch"]],
                scope=case["scope"], uscope=case.get("cli_scope") or case["scope"], ignore=case["ignore"], fetch_fails=bool(case.get("fetch_fails")) and not case["ignore"],
                show=glue.cp(shown) if shown else [0], show_clean=glue.cp(shown_clean) if shown_clean else [0],
                old=glue.cp(r2.old_version()) if r2.old_version() else [0], new=glue.cp(r2.new_version()) if (r2.exit == 0 and r2.new_version()) else [0],
                exit=r2.exit, exit_clean=c2.exit, today=drive.TODAY.toordinal(), exc=(r1.exc or r2.exc or ""), setver=case["setver"],
                dbg="pattern=%s cfg=%s all=%s branch=%s scope=%s ignore=%s: bumpver %s" % (case["pat"], case["cfgver"], case["all"], case["branch"], case["scope"], case["ignore"], " ".join(args)),
                impossible=any(t in PATTERNS[case["pat"]]["impossible"] for t in case["all"]), real=False)


def _git(cwd, *args):
    return sp.run(["git"] + list(args), cwd=cwd, stdout=sp.PIPE, stderr=sp.PIPE, check=True, env=dict(os.environ, GIT_AUTHOR_NAME="t", GIT_AUTHOR_EMAIL="t@e", GIT_COMMITTER_NAME="t",
                  GIT_COMMITTER_EMAIL="t@e", GIT_CONFIG_GLOBAL="/dev/null", GIT_CONFIG_SYSTEM="/dev/null")).stdout.decode()


def replay_real(job):
    """the same on a real git repository: tags placed on main (reachable from HEAD) and on another branch"""
    case, seed = job
    case = dict(case, all=[t for t in case["all"] if t.strip() == t and t and " " not in t and "\t" not in t and not t.startswith("-") and "é" not in t and ".." not in t and not t.endswith(".") and not t.endswith("-")])
    case["branch"] = [t for t in case["branch"] if t in case["all"]]
    with drive.scratch_dir("c09r") as d:
        root = os.path.join(d, "p")
        os.makedirs(root)
        _git(root, "init", "-q", "-b", "main")
        proj = project.Project(root, vcs=None)
        proj.write("bumpver.toml", project.bumpver_toml(case["cfgver"], case["pat"], [("f.txt", ["{version}"])], extra={"tag_scope": case["scope"]}))
        proj.write("f.txt", "v %s\n" % case["cfgver"])
        _git(root, "add", "-A"); _git(root, "commit", "-q", "-m", "init")
        for t in case["branch"]:
            _git(root, "commit", "-q", "--allow-empty", "-m", "c " + t); _git(root, "tag", t)
        _git(root, "checkout", "-q", "-b", "other")
        for t in case["all"]:
            if t not in case["branch"]:
                _git(root, "commit", "-q", "--allow-empty", "-m", "o " + t); _git(root, "tag", t)
        _git(root, "checkout", "-q", "main")
        listed_all = _git(root, "tag", "--list").splitlines()
        listed_branch = _git(root, "tag", "--list", "--merged").splitlines()
        env = {"GIT_CONFIG_GLOBAL": "/dev/null", "GIT_CONFIG_SYSTEM": "/dev/null"}
        r1 = drive.cli(["show", "--no-fetch"] + (["--ignore-vcs-tag"] if case["ignore"] else []), cwd=root, env=env)
        shown = None
        for ln in r1.stdout.splitlines():
            if ln.startswith("Current Version: "):
                shown = ln[len("Current Version: "):]
        args = (["update", "--dry", "--no-fetch", "--date", DATE] + (["--ignore-vcs-tag"] if case["ignore"] else []) + (["--tag-scope", case["cli_scope"]] if case.get("cli_scope") else [])
                + (["--set-version", case["setver"]] if case["setver"] else case["flags"]))
        r2 = drive.cli(args, cwd=root, env=env)
    return dict(ev="resolve", P=glue.parse_pattern(case["pat"]), cfgver=glue.cp(case["cfgver"]), all=[glue.cp(t) for t in listed_all], branch=[glue.cp(t) for t in listed_branch],
                scope=case["scope"], uscope=case.get("cli_scope") or case["scope"], ignore=case["ignore"], show=glue.cp(shown) if shown else [0], show_clean=glue.cp(shown) if shown else [0],
                old=glue.cp(r2.old_version()) if r2.old_version() else [0], new=glue.cp(r2.new_version()) if (r2.exit == 0 and r2.new_version()) else [0],
                exit=r2.exit, exit_clean=r2.exit, today=drive.TODAY.toordinal(), exc=(r1.exc or r2.exc or ""), setver=case["setver"],
                dbg="REAL GIT pattern=%s cfg=%s all=%s merged=%s scope=%s ignore=%s: bumpver %s" % (case["pat"], case["cfgver"], listed_all, listed_branch, case["scope"], case["ignore"], " ".join(args)),
                impossible=any(t in PATTERNS[case["pat"]]["impossible"] for t in case["all"]), real=True)


def gen_mc(pat, texts, cfg_idx, flags):
    f = glue.flags(**{k: True for k in [x.strip("-") for x in flags]})
    return glue.gen_module("Gen_C09", dict(GenPattern=glue.parse_pattern(pat), GenTexts=[glue.cp(t) for t in texts], GenConfig=set(cfg_idx), GenFlags=f,
                                           GenDate=dt.date(2021, 6, 15).toordinal(), GenToday=drive.TODAY.toordinal(), GenMaxTags=4))


def run(ctx):
    drive.setup(hooks=False)
    rng = random.Random(ctx.seed)
    # ---- design: a universe of 8 tag texts per pattern
    universes = [("MAJOR.MINOR.PATCH", ["1.2.2", "1.2.3", "1.2.4", "1.2.5", "1.2.03", "v1.2.9", "junk", "1.2.3x"], [1, 2, 4], ["--patch"]),
                 ("YYYY.0M.0D", ["2021.06.14", "2021.06.15", "2021.06.16", "2020.02.28", "2020.02.30", "2021.6.15", "junk", "2021.06.15x"], [1, 2, 3], [])]
    for pat, texts, cfgs, flags in universes[:ctx.pick(2, 2)]:
        res = tlc.run(tlc.module_text("mc/MC_C09.tla"), "INIT Init\nNEXT Next\nINVARIANT StartIsMaxInScope\nINVARIANT ConfigWhenNoTagMatches\nINVARIANT JunkIsInert\nINVARIANT NewIsFresh\nCHECK_DEADLOCK FALSE\n",
                      name="MC_C09", workers=16, extra_files={"Gen_C09.tla": gen_mc(pat, texts, cfgs, flags)}, timeout=3000, xmx="8g")
        ctx.add_design(res, "MC_C09 %s: 8 tag texts, up to 4 present, on two branches x 3 scopes x --ignore-vcs-tag x 3 config values" % pat)
        if res.violation:
            ctx.violation(dict(clause="design:" + res.violation, ignore=("ignore = TRUE" in (res.trace[-1] if res.trace else ""))), case=dict(pattern=pat, texts=texts, state=res.trace[-1:]), check="design")
    # ---- code -> spec
    cases = []
    pats = list(PATTERNS)
    for i in range(ctx.pick(1200, 60000)):
        cases.append(gen_case(rng, pats[i % len(pats)], ctx.pick(6, 30)))
    events = drive.pmap(replay, [(c, i) for i, c in enumerate(cases)], hooks=False, chunksize=10)
    real_cases = [c for c in cases if len(c["all"]) >= 2][:ctx.pick(32, 1000)]
    events += drive.pmap(replay_real, [(c, i) for i, c in enumerate(real_cases)], hooks=False, chunksize=2)
    for i, e in enumerate(events):
        e["id"] = i + 1
    keep = ("id", "ev", "P", "cfgver", "all", "branch", "scope", "uscope", "ignore", "fetch_fails", "show", "show_clean", "old", "new", "exit", "exit_clean", "today")
    fails, st = tlc.validate_events("Trace_Text", [{k: e.get(k, False) if k == "fetch_fails" else e[k] for k in keep} for e in events], name="C09", xmx="3g")
    ctx.add_trace(st)
    by_id = {e["id"]: e for e in events}
    for f in fails:
        e = by_id[f["id"]]
        ctx.violation(dict(clause=f["clause"], ignore=e["ignore"], scope=e["scope"], scope_on_command_line=e["uscope"] != e["scope"], impossible_date_tag=e["impossible"], uncaught=e["exc"].split(":")[0] if e["exc"] else "", set_version=bool(e["setver"])),
                      case=dict(what=e["dbg"], shown=glue.uncp(e["show"]) if e["show"][0] else None, announced=glue.uncp(e["new"]) if e["new"][0] else None, exc=e["exc"][:200]), expected=f["detail"][:200])
    ctx.count("fake_git_cases", len(cases))
    ctx.count("real_git_cases", len(real_cases))
    ctx.count("update_exit0", sum(1 for e in events if e["exit"] == 0))
    ctx.count("cases_start_from_tag", sum(1 for e in events if e["show"] != e["cfgver"]))
    if sum(1 for e in events if e["show"] != e["cfgver"]) < 0.15 * len(events):
        raise Machinery("vacuous: the start version came from a tag in too few cases")
    ctx.evaluations = len(events)
    for e in events:
        ctx.nontriv(e["dbg"])
    ctx.rule = ("tag sets of 0..%d tags (valid versions below/equal/above the config value, PEP 440-equal respellings, other schemes, junk, impossible dates, trailing junk) split "
                "between HEAD's branch and another one, three scopes, --ignore-vcs-tag, automatic increment or --set-version; `show` and `update --dry` with a fake git, each case "
                "run again without the non-matching tags; a sample on real git repositories; non-trivial = distinct cases" % ctx.pick(6, 30))
    for e in events[:2] + events[-1:]:
        ctx.sample(dict(what=e["dbg"], shown=glue.uncp(e["show"]) if e["show"][0] else None))
    ctx.assumptions += ["tag lists come from a fake git in the order given (real git on a sample)", "four patterns"]
