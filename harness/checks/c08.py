"""C08 - any sequence of updates keeps files, config and tags in agreement."""
import os
import re
import json
import random
import datetime as dt
import subprocess as sp
from .. import tlc, drive, glue, project
from ..core import Machinery

GENV = dict(GIT_AUTHOR_NAME="t", GIT_AUTHOR_EMAIL="t@e", GIT_COMMITTER_NAME="t", GIT_COMMITTER_EMAIL="t@e", GIT_CONFIG_GLOBAL="/dev/null", GIT_CONFIG_SYSTEM="/dev/null")
CFG = ("SPECIFICATION Spec\nINVARIANT Agreement\nINVARIANT StrictlyGreater\nINVARIANT TagsUnique\nINVARIANT NextUpdatePossible\nINVARIANT OneCommitOneTag\n%sCHECK_DEADLOCK FALSE\n")
F0 = dict(major=False, minor=False, patch=False, tag="none", tag_num=False, pin_increments=False, pin_date=False)
# start versions sit just below a digit boundary (patch 9 -> 10, INC0 9 -> 10, BUILD 1999 -> 22000, MINOR 9 -> 10): orderings by text and by version differ there
PROJECTS = [
    dict(pattern="vMAJOR.MINOR.PATCH[-TAG]", v0="v1.2.9-beta", day0=dt.date(2024, 4, 1), partial="series MAJOR.MINOR",
         flags=[dict(F0, patch=True), dict(F0, minor=True), dict(F0, tag="rc"), dict(F0, tag="final"), dict(F0, major=True, tag="alpha"), dict(F0)]),
    dict(pattern="vYYYY0M.BUILD[-TAG]", v0="v202403.1998-beta", day0=dt.date(2024, 4, 1), partial="Copyright (c) 2018-YYYY",
         flags=[dict(F0), dict(F0, tag="rc"), dict(F0, tag="final"), dict(F0, pin_date=True), dict(F0, tag="beta")]),
    dict(pattern="YYYY.MM.INC0", v0="2024.3.9", day0=dt.date(2024, 4, 1), partial="docs for YYYY.MM",
         flags=[dict(F0), dict(F0, pin_date=True), dict(F0, pin_increments=True)]),
    dict(pattern="MAJOR.MINOR[.PATCH[PYTAGNUM]]", v0="1.9", day0=dt.date(2024, 4, 1), partial="series MAJOR.MINOR",
         flags=[dict(F0, patch=True), dict(F0, minor=True), dict(F0, tag="beta"), dict(F0, tag_num=True), dict(F0, tag="final"), dict(F0, major=True)]),
]


def gen_hist(prj, depth, daystep=(0, 1, 40)):
    return glue.gen_module("Gen_Hist", dict(GenP=glue.parse_pattern(prj["pattern"]), GenPartial=glue.parse_pattern(prj["partial"], file_pattern=True), GenV0=glue.cp(prj["v0"]), GenDay0=prj["day0"].toordinal(), GenDayStep=set(daystep),
                                            GenToday=drive.TODAY.toordinal(), GenFlagSets=[f for f in prj["flags"]], GenDepth=depth)).replace(
        "GenFlagSets == <<", "GenFlagSets == {").replace(">>\nGenDepth", "}\nGenDepth")


def git(cwd, *args, check=True):
    p = sp.run(["git"] + list(args), cwd=cwd, stdout=sp.PIPE, stderr=sp.PIPE, env=dict(os.environ, **GENV))
    if check and p.returncode != 0:
        raise RuntimeError("git %s: %s" % (" ".join(args), p.stderr.decode()))
    return p.stdout.decode()


def read_wt(root, docs="docs.txt"):
    """the four texts of the working tree; a text that cannot be located any more (a mangled file) is reported as such, never raised"""
    def find(rx, text, flags=0):
        m = re.search(rx, text, flags)
        return m.group(1) if m else "<not found in: %r>" % text[-80:]
    text = open(os.path.join(root, "bumpver.toml"), errors="replace").read()
    cfg = find(r'current_version = "([^"]*)"', text)
    for second in (re.search(r"^# release (\S+)$", text, re.M), re.search(r'^version = "([^"]*)"$', text, re.M)):
        if second and second.group(1) != cfg:
            cfg = "%s (but the second occurrence in the config file says %s)" % (cfg, second.group(1))
    a = open(os.path.join(root, "a.txt"), errors="replace").read()
    lines = open(os.path.join(root, docs), errors="replace").read().split("\n")
    return {"cfg": cfg, "ver": find(r"ver=(\S+)", a), "pep": find(r"pep=(\S*)", a), "part": lines[1] if len(lines) > 1 else "<docs file has one line>"}


def replay(job):
    """one behaviour of the specification stepped through real git + real bumpver; after every step the abstract state is compared"""
    pi, hist, idx = job
    prj = PROJECTS[pi]
    txt = glue.uncp
    problems = []
    steps = 0
    from bumpver import version, v2version, v2patterns
    with drive.scratch_dir("c08") as d:
        root = os.path.join(d, "p")
        os.makedirs(root)
        git(root, "init", "-q", "-b", "main")
        pep0 = v2version.format_version(v2version.parse_version_info(prj["v0"], prj["pattern"]), v2patterns.normalize_pattern(prj["pattern"], "{pep440_version}"))
        proj = project.Project(root, vcs=None)
        # every third history configures its files under another spelling of their paths (./name); the config file then carries a second occurrence
        respell = idx % 3 == 1
        docs = "release notes.txt" if idx % 3 == 2 else "docs.txt"        # every third history: a configured file whose name git quotes in its status output
        pre = "./" if respell else ""
        # every seventh history: a pre-commit hook that edits a configured file (a build stamp at the end of a.txt): its edit belongs to the bump commit
        # (only in histories all of whose updates go through: a refusal the model expects because there is nothing to commit would not happen with the stamp)
        hooked = idx % 7 == 6 and all(s_["ok"] for s_ in hist if s_["act"] == "update")
        # every fifth history: the config file lists itself with the pattern of a [project] table only (version = "..."), which finds the current_version line as well
        embedded = idx % 5 == 4 and not respell
        # every eleventh history: the config file is reached through a glob key only, with a pattern for another line of it - the pattern for its
        # current_version line is then implicit, as it is when the file is not listed at all
        globself = idx % 11 == 9 and not respell and not embedded
        proj.write("bumpver.toml", project.bumpver_toml(prj["v0"], prj["pattern"], [("*.toml", ["# release {version}"]) if globself else (pre + "bumpver.toml", ['version = "{version}"'] if embedded else ['current_version = "{version}"'] + (["# release {version}"] if respell else [])),
                                                                                    (pre + "a.txt", ["ver={version}", "pep={pep440_version}"]),
                                                                                    (docs, [prj["partial"]])],       # a file with a PARTIAL pattern only
                                                        commit=True, tag=True, push=False, extra=dict({"tag_scope": ([s["scope"] for s in hist if s["act"] == "update"] or ["default"])[0]}, **({"pre_commit_hook": "stamp.sh"} if hooked else {})))
                   + ("\n# release %s\n" % prj["v0"] if (respell or globself) else "") + ('\n[project]\nname = "demo"\nversion = "%s"\n' % prj["v0"] if embedded else ""))
        # both occurrences on ONE line, the pattern listed second to the left of the one listed first (replacements must not depend on the order of the patterns)
        proj.write("a.txt", "intro\npep=%s ver=%s\n" % (pep0, prj["v0"]))
        part0 = v2version.format_version(v2version.parse_version_info(prj["v0"], prj["pattern"]), prj["partial"])
        proj.write(docs, "documentation\n%s\nend\n" % part0)
        proj.write("other.txt", "tracked, carries no version pattern\n")
        if hooked:
            proj.write("stamp.sh", "#!/bin/sh\necho \"built for $BUMPVER_NEW_VERSION\" >> a.txt\n")
            os.chmod(os.path.join(root, "stamp.sh"), 0o755)
        git(root, "add", "-A"); git(root, "commit", "-q", "-m", "init")
        proj.write("untracked.tmp", "never added: must not appear in any bump commit\n")
        n_unrel = 0
        for si, st in enumerate(hist):
            steps += 1
            act = st["act"]
            if act == "update":
                f = st["f"]
                args = ["update", "--no-fetch"] + glue.cli_flags(f, dt.date.fromordinal(st["day"]))
                args.append("--commit" if st["commit"] else "--no-commit")
                if st["commit"]:
                    args.append("--tag-commit" if st["tagit"] else "--no-tag-commit")
                if st.get("allow"):
                    args.append("--allow-dirty")
                head0 = git(root, "rev-parse", "HEAD").strip()
                prev_wt = read_wt(root, docs)
                r = drive.cli(args, cwd=root, env=GENV)
                ok = r.exit == 0
                exp_wt = {k: txt(v) for k, v in st["wt"].items()}
                got_wt = read_wt(root, docs)
                ntags = len(git(root, "tag", "--list").split())
                if ok != st["ok"]:
                    problems.append(("exit", r.exit, st["ok"], (r.exc or "")[:120], [m for _l, _n, m in r.logs][-2:]))
                if st["ok"] and r.new_version() != txt(st["new"]):
                    problems.append(("announced", r.new_version(), txt(st["new"])))
                if st["ok"] and (r.old_version() is None or version.parse_version(r.old_version()) != version.parse_version(txt(st["start"]))):
                    problems.append(("start", r.old_version(), txt(st["start"])))
                if got_wt != exp_wt:
                    problems.append(("files-or-config", got_wt, exp_wt))
                if ntags != st["ntags"]:
                    problems.append(("number-of-tags", ntags, st["ntags"]))
                if st["ok"]:
                    rs = drive.cli(["show", "--no-fetch"], cwd=root, env=GENV)
                    shown = [ln[len("Current Version: "):] for ln in rs.stdout.splitlines() if ln.startswith("Current Version: ")]
                    # `show` uses the configured scope (default): with a tag just made, or after an untagged default-scope update, it is the announced version
                    if (st["tagit"] or st["scope"] == "default") and shown != [txt(st["new"])]:
                        problems.append(("show", shown, txt(st["new"])))
                if st["ok"] and st["commit"]:
                    head1 = git(root, "rev-parse", "HEAD").strip()
                    parent = git(root, "rev-parse", "HEAD~1").strip()
                    if parent != head0:
                        problems.append(("not-exactly-one-commit", head0, parent, head1))
                    names = [x for x in git(root, "show", "--name-only", "--format=", "HEAD").split("\n") if x]
                    # docs.txt is part of the bump commit exactly when its partial occurrence changed
                    want = ["a.txt", "bumpver.toml"] + ([docs] if prev_wt["part"] != exp_wt["part"] else [])
                    if sorted(names) != sorted(want):
                        problems.append(("commit-files", names, want))
                    at = git(root, "tag", "--points-at", "HEAD").split()
                    if st["tagit"] and at != [txt(st["new"])]:
                        problems.append(("tag-at-head", at, txt(st["new"])))
                    if not st["tagit"] and at:
                        problems.append(("unexpected-tag", at))
                    left = [ln for ln in git(root, "status", "--porcelain").split("\n") if ln[3:].strip('"') in ("a.txt", "bumpver.toml", docs)]
                    if left:
                        problems.append(("configured-file-left-uncommitted", left))
                    if st.get("other_dirty") and " M other.txt" not in git(root, "status", "--porcelain").split("\n"):
                        problems.append(("unrelated-modification-no-longer-uncommitted", git(root, "status", "--porcelain")))
                if not st["ok"] and not st["commit"] and False:
                    pass
            elif act == "touchother":
                with open(os.path.join(root, "other.txt"), "a") as fo:
                    fo.write("work in progress %d\n" % si)
            elif act == "usercommit":
                git(root, "commit", "-q", "-a", "-m", "user commit")
            elif act == "unrelated":
                n_unrel += 1
                with open(os.path.join(root, "other.txt"), "a") as fo:
                    fo.write("x%d\n" % n_unrel)
                git(root, "add", "other.txt"); git(root, "commit", "-q", "-m", "unrelated")
            elif act == "newbranch":
                git(root, "checkout", "-q", "-b", "feat")
            elif act == "switch":
                git(root, "checkout", "-q", st["to"])
                if read_wt(root, docs) != {k: txt(v) for k, v in st["wt"].items()}:
                    problems.append(("switch-working-tree", read_wt(root, docs)))
            if problems:
                problems.append(("at-step", si, act))
                break
    n_upd_ok = sum(1 for s in hist if s["act"] == "update" and s["ok"])
    return dict(project=prj["pattern"], steps=steps, problems=problems, n_updates_ok=n_upd_ok, hist=[(s["act"], s.get("scope"), s.get("ok")) for s in hist], idx=idx)


def run(ctx):
    drive.setup(hooks=False)
    rng = random.Random(ctx.seed)
    # ---- design: exhaustive to a small depth for the first project, hist hidden by a VIEW
    d_ex = 2          # depth 3 is ~70 times larger (about an hour); deeper histories are covered by simulation
    res = tlc.run(tlc.module_text("Bumpver.tla"), CFG % "VIEW View\n", name="Bumpver", workers=16, extra_files={"Gen_Hist.tla": gen_hist(PROJECTS[0], d_ex)}, timeout=3400, xmx="12g")
    ctx.add_design(res, "Bumpver.tla exhaustive, %s, histories of up to %d invocations/commits/branch switches" % (PROJECTS[0]["pattern"], d_ex))
    if res.violation:
        ctx.violation(dict(clause="design:" + res.violation), case=dict(state=res.trace[-2:]), check="design")
    # ---- design + export: simulation over all projects
    depth = ctx.pick(8, 12)
    n_sim = ctx.pick(14, 60)
    jobs = []
    for pi, prj in enumerate(PROJECTS):
        res = tlc.run(tlc.module_text("Bumpver.tla"), CFG % "CONSTRAINT Export\n", name="Bumpver", workers=8, extra_files={"Gen_Hist.tla": gen_hist(prj, depth)}, timeout=ctx.pick(150, 1500),
                      simulate="num=%d" % n_sim, depth=depth * 3, seed=ctx.seed + pi, xmx="6g")
        ctx.add_design(res, "Bumpver.tla -simulate, %s, depth %d" % (prj["pattern"], depth))
        if res.violation:
            ctx.violation(dict(clause="design:" + res.violation, project=prj["pattern"]), case=dict(state=res.trace[-2:]), check="design")
        hists = []
        for ln in res.raw_printed:
            if ln.startswith("HIST "):
                h = json.loads(ln[5:])
                if h not in hists:
                    hists.append(h)
        # prefer behaviours with several successful updates and a branch switch
        hists.sort(key=lambda h: -(sum(1 for s in h if s["act"] == "update" and s["ok"]) * 3 + sum(1 for s in h if s["act"] in ("switch", "newbranch"))))
        for k, h in enumerate(hists[:ctx.pick(70, 400)]):
            jobs.append((pi, h, len(jobs)))
    n_simulated = len(jobs)
    if n_simulated < 20:
        raise Machinery("simulation exported only %d behaviours" % n_simulated)
    # ---- design + export: EVERY history of two steps (one date) for two projects - the short histories random simulation rarely composes
    # (a tagged update followed by an untagged one across a digit boundary, a failing update followed by a good one, ...)
    n_short = 0
    for pi in (0, 3):
        prj = PROJECTS[pi]
        res = tlc.run(tlc.module_text("Bumpver.tla"), CFG % "VIEW View\nCONSTRAINT Export\n", name="Bumpver", workers=16, extra_files={"Gen_Hist.tla": gen_hist(prj, 2, (0,))}, timeout=3400, xmx="12g")
        ctx.add_design(res, "Bumpver.tla exhaustive + export, %s, every history of 2 steps on one date" % prj["pattern"])
        if res.violation:
            ctx.violation(dict(clause="design:" + res.violation, project=prj["pattern"]), case=dict(state=res.trace[-2:]), check="design")
        hists = []
        for ln in res.raw_printed:
            if ln.startswith("HIST "):
                hists.append(json.loads(ln[5:]))
        hists.sort(key=lambda h: json.dumps(h, sort_keys=True))
        for k, h in enumerate(hists):
            if ctx.quick and not any(s["act"] == "update" and s["ok"] for s in h) and k % 3:
                continue
            if ctx.quick and len(hists) > 700 and k % 2:          # the quick tier replays every second of them (the thorough tier all)
                continue
            jobs.append((pi, h, len(jobs)))
            n_short += 1
    if n_short < 300:
        raise Machinery("the exhaustive runs exported only %d two-step histories" % n_short)
    ctx.count("two_step_histories_replayed", n_short)
    ctx.count("simulated_histories_replayed", n_simulated)
    results = drive.pmap(replay, jobs, hooks=False, chunksize=1)
    n_steps = 0
    for r in results:
        n_steps += r["steps"]
        if r["problems"]:
            kind = r["problems"][0][0]
            ctx.violation(dict(clause="replay:" + kind, project=r["project"]), case=dict(history=r["hist"], problems=[list(map(str, p)) for p in r["problems"]]))
    ctx.traces += len(results)
    ctx.count("behaviours_replayed", len(results))
    ctx.count("steps_replayed", n_steps)
    ctx.count("successful_updates_replayed", sum(r["n_updates_ok"] for r in results))
    if sum(r["n_updates_ok"] for r in results) < len(results):
        raise Machinery("vacuous: too few successful updates in the replayed behaviours")
    ctx.evaluations = n_steps
    for r in results:
        ctx.nontriv(json.dumps(r["hist"]))
    ctx.rule = ("every two-step history of two projects (exhaustive TLC run, one date) and behaviours of Bumpver.tla generated by TLC simulation (4 projects: SemVer with tag, CalVer with BUILD, CalVer with INC0, optional PATCH/PYTAGNUM; histories of %d steps: "
                "updates with flag sets, scopes, --no-commit/--no-tag-commit, dates that do not decrease, failing updates, user commits, unrelated commits, new branch, branch switches) "
                "replayed step by step against real git and the real CLI; after every step exit code, announced and start version, config value, file occurrences, `show`, tag count, "
                "tag at HEAD and the committed paths are compared with the spec state; non-trivial = distinct behaviours" % depth)
    for r in results[:2]:
        ctx.sample(dict(project=r["project"], history=r["hist"]))
    ctx.assumptions += ["real git 2.39; two branches; one file with {version} and {pep440_version} plus the config file", "hist is hidden by a VIEW in the exhaustive run"]
