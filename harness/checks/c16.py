"""C16 - version comparison is a total order that agrees with PEP 440."""
import random
import re
import itertools
from .. import tlc, drive, glue
from ..core import Machinery

PRE = [None, ("a", 0), ("a", 1), ("b", 0), ("b", 2), ("rc", 0), ("rc", 1), ("a", 12)]
POST = [None, 0, 1, 456]
DEV = [None, 0, 1, 34]
LOCAL = [None, "a", "1", "a.1", "abc.5", "abc.7", "5", "ubuntu.1"]
LOCAL_FAMILY = ["0", "00", "1", "7", "10", "a", "abc", "abc.0", "abc.1", "abc.rc1", "0.a", "a.0", "1.0", "deb.0", "deb.rc1", "local"]
RELEASES = ["1", "1.0", "1.0.0", "1.1", "0.9", "2021.1", "1.0.1", "10", "1.10", "1.9", "2017.54321", "0", "0.0.1", "201811.7"]
PRE_SPELL = {"a": ["a", "alpha", "A", "Alpha"], "b": ["b", "beta", "B"], "rc": ["rc", "c", "pre", "preview", "RC"]}
POST_SPELL = ["post", "rev", "r", "POST"]


def spell(rng, epoch, rel, pre, post, dev, local, canonical=False):
    """one spelling of an abstract PEP 440 version (pure printing, no meaning attached)"""
    if canonical:
        s = ("%d!" % epoch if epoch else "") + rel
        if pre:
            s += "%s%d" % pre
        if post is not None:
            s += ".post%d" % post
        if dev is not None:
            s += ".dev%d" % dev
        if local:
            s += "+" + local
        return s
    s = rng.choice(["", "", "v", "V"]) + ("%d!" % epoch if epoch else "")
    comps = rel.split(".")
    if rng.random() < 0.3:
        comps = [("0" * rng.randrange(0, 3)) + c for c in comps]
    if rng.random() < 0.2:
        comps = comps + ["0"] * rng.randrange(1, 3)
    s += ".".join(comps)
    if pre:
        l, n = pre
        s += rng.choice(["", ".", "-", "_"]) + rng.choice(PRE_SPELL[l]) + rng.choice(["", "", ".", "-", "_"] if n or rng.random() < 0.5 else [""])
        s += ("" if n == 0 and rng.random() < 0.4 else ("0" * rng.randrange(0, 2)) + str(n))
    if post is not None:
        if rng.random() < 0.25 and post is not None:
            s += "-%d" % post
        else:
            s += rng.choice(["", ".", "-", "_"]) + rng.choice(POST_SPELL) + rng.choice(["", "", ".", "-"]) + ("" if post == 0 and rng.random() < 0.4 else str(post))
    if dev is not None:
        s += rng.choice(["", ".", "-", "_"]) + rng.choice(["dev", "DEV"]) + rng.choice(["", "", "."]) + ("" if dev == 0 and rng.random() < 0.4 else str(dev))
    if local:
        loc = local
        if rng.random() < 0.4:
            loc = loc.replace(".", rng.choice(["-", "_", "."]))
        if rng.random() < 0.3:
            loc = re.sub(r"(^|[.\-_])([0-9]+)($|[.\-_])", lambda m: m.group(1) + "00" + m.group(2) + m.group(3), loc)       # +007: a numeric part is a number (canonical +7)
        s += "+" + (loc.upper() if rng.random() < 0.15 else loc)
    if rng.random() < 0.1:
        s = rng.choice([" ", "\t", ""]) + s + rng.choice([" ", "\n", ""])
    return s


LEGACY_SEEDS = ["v2017q1.54321", "v2017q2.1", "foo", "foo-1", "1.2.x", "1.2--3", "", "-", "..", "1.0-finalx", "release-1", "2021q3", "1.0.devx", "1 2",
                "vx", "1.2.3abc", "1.0-", "1..0", "1.0+", "1.0+a..b", "!1", "1!", "1.0rc", "1.0.post", "v", "1_0", "2020.1-beta", "1.0a1b2", "1.0.0.0.0.x", "é1.0",
                "1.0 beta", "1.0-pre-release", "12abc34", "1.0final", "1.0-final", "a", "z", "00", "1.0.dev1.post1", "1.0+local+local"]


def gen_texts(rng, n_records, n_noise):
    texts = []
    recs = list(itertools.product([0, 0, 1], RELEASES, PRE, POST, DEV, LOCAL))
    rng.shuffle(recs)
    for r in recs[:n_records]:
        texts.append(spell(rng, *r, canonical=True))
        for _ in range(2):
            texts.append(spell(rng, *r))
    texts += LEGACY_SEEDS
    alphabet = "0123456789.-_+!abcdevrpostlhx "
    for _ in range(n_noise):
        k = rng.random()
        if k < 0.4:     # a valid text with one code point of noise
            t = list(spell(rng, *rng.choice(recs)))
            i = rng.randrange(len(t) + 1)
            if rng.random() < 0.5 and t:
                t[min(i, len(t) - 1)] = rng.choice(alphabet)
            else:
                t.insert(i, rng.choice(alphabet))
            texts.append("".join(t))
        elif k < 0.47:  # a valid text with one digit written as a non-ASCII decimal digit (fullwidth, Arabic-Indic, Devanagari): not a PEP 440 version
            t = list(spell(rng, *rng.choice(recs)))
            pos = [i for i, c in enumerate(t) if c in "0123456789"]
            if pos:
                i = rng.choice(pos)
                t[i] = chr(rng.choice([0xFF10, 0x0660, 0x0966]) + int(t[i]))
            texts.append("".join(t))
        elif k < 0.6:   # bumpver style
            texts.append("v%dq%d.%d%s" % (rng.randrange(2000, 2030), rng.randrange(1, 5), rng.randrange(1, 99999), rng.choice(["", "-beta", "-rc1", ".dev"])))
        else:
            texts.append("".join(rng.choice(alphabet + "ABZ()*é☃") for _ in range(rng.randrange(0, 12))))
    out = list(dict.fromkeys(texts))
    return out


def _eval(job):
    """ask the real comparison"""
    kind, texts, items = job
    from bumpver import version
    parsed = [version.parse_version(t) for t in texts]
    out = []
    if kind == "text":
        for a in items:
            v = parsed[a]
            out.append(dict(ev="text", a=a + 1, pep=type(v).__name__ == "Version", canon=glue.cp(str(v))))
    elif kind == "cmp":
        for a, b in items:
            x, y = parsed[a], parsed[b]
            out.append(dict(ev="cmp", a=a + 1, b=b + 1, lt=bool(x < y), le=bool(x <= y), eq=bool(x == y), gt=bool(x > y)))
    else:
        for a, b, c in items:
            x, y, z = parsed[a], parsed[b], parsed[c]
            out.append(dict(ev="triple", a=a + 1, b=b + 1, c=c + 1, ab=bool(x <= y), bc=bool(y <= z), ac=bool(x <= z)))
    return out


def run(ctx):
    rng = random.Random(ctx.seed)
    # ---- design: laws of the spec's ordering
    nrel, step, nleg = ctx.pick((2, 12, 10), (4, 12, 16))
    cfg = ("INIT Init\nNEXT Next\nCONSTANTS NRel = %d\n NLegacy = %d\n Step = %d\nINVARIANT Reflexive\nINVARIANT Antisymmetric\nINVARIANT Transitive\n"
           "INVARIANT EqualIffSameKey\nINVARIANT LegacyIsLegacy\nINVARIANT LegacyBelow\nINVARIANT PrintParse\nCHECK_DEADLOCK FALSE\n" % (nrel, nleg, step))
    res = tlc.run(tlc.module_text("mc/MC_C16.tla"), cfg, name="MC_C16", workers=16, timeout=3400, xmx="12g")
    ctx.add_design(res, "MC_C16 NRel=%d (universe %d records: all pairs; every %dth record: all triples; %d legacy texts: all triples)" % (nrel, 432 * nrel, step, nleg))
    if res.violation:
        ctx.violation(dict(clause="design:" + res.violation), case=dict(state=res.trace[-1:]), check="design")

    # ---- code -> spec
    texts = gen_texts(rng, ctx.pick(260, 800), ctx.pick(500, 1500))
    texts = [t for t in texts if len(t) <= 40]
    # families that differ in the local segment only: numeric against alphanumeric parts (also the number 0), prefixes, leading zeros
    fam = []
    for base in ["1.0", "2021.3", "1.0rc1", "0.dev0"]:
        fam.append([base + "+" + loc for loc in LOCAL_FAMILY])
    texts = list(dict.fromkeys(texts + [t for f in fam for t in f]))
    pos = {t: i for i, t in enumerate(texts)}
    n = len(texts)
    ctx.count("distinct_texts", n)
    idx = list(range(n))
    pairs = set()
    for a in idx:
        pairs.add((a, a))
    for f in fam:
        for x in f:
            for y in f:
                pairs.add((pos[x], pos[y]))
    # neighbours in a rough order are the interesting pairs: sort by the code's own key once to pick neighbours (selection only)
    while len(pairs) < ctx.pick(40000, 100000):
        a = rng.randrange(n)
        b = rng.randrange(n) if rng.random() < 0.5 else min(n - 1, max(0, a + rng.randrange(-4, 5)))
        pairs.add((a, b))
    pairs = sorted(pairs)
    triples = [(rng.randrange(n), rng.randrange(n), rng.randrange(n)) for _ in range(ctx.pick(15000, 30000))]
    jobs = [("text", texts, idx)]
    jobs += [("cmp", texts, pairs[i:i + 5000]) for i in range(0, len(pairs), 5000)]
    jobs += [("triple", texts, triples[i:i + 5000]) for i in range(0, len(triples), 5000)]
    events = []
    for part in drive.pmap(_eval, jobs, hooks=False):
        events += part
    # texts with a non-ASCII decimal digit are not PEP 440 versions (class and "below every PEP 440 version" are checked); how two such LEGACY texts compare
    # with each other is not predicted (the legacy key's treatment of Unicode digits is outside the statement): those events are dropped and counted
    odd = set(i + 1 for i, t in enumerate(texts) if any(ord(c) > 127 and c.isdigit() for c in t))
    pep_of = {e["a"]: e["pep"] for e in events if e["ev"] == "text"}
    def unpredicted(e):
        ids = [e[k] for k in ("a", "b", "c") if k in e]
        legacy = [i for i in ids if not pep_of.get(i, True)]
        return e["ev"] in ("cmp", "triple") and len(legacy) >= 2 and any(i in odd for i in legacy) and len(set(ids)) > 1
    dropped = [e for e in events if unpredicted(e)]
    events = [e for e in events if not unpredicted(e)]
    ctx.count("texts_with_non_ascii_digits", len(odd))
    ctx.count("comparisons_among_legacy_texts_with_non_ascii_digits_not_predicted", len(dropped))
    for i, e in enumerate(events):
        e["id"] = i + 1
    shared = {"TEXTS_FILE": [dict(t=glue.cp(t)) for t in texts]}
    fails, st = tlc.validate_events("Trace_Pep", events, name="C16", shared=shared, chunk=max(2000, len(events) // 16 + 1), xmx="3g", timeout=5400)
    ctx.add_trace(st)
    ctx.count("cmp_events", len(pairs))
    ctx.count("triple_events", len(triples))
    by_id = {e["id"]: e for e in events}
    for f in fails:
        e = by_id[f["id"]]
        case = dict(a=texts[e["a"] - 1])
        if "b" in e:
            case["b"] = texts[e["b"] - 1]
        if "c" in e:
            case["c"] = texts[e["c"] - 1]
        ctx.violation(dict(clause=f["clause"], event=e["ev"]), case=case, expected=f["detail"], observed={k: v for k, v in e.items() if k not in ("id", "ev", "a", "b", "c")})
    ctx.evaluations = len(events)
    for a, b in pairs:
        if a != b:
            ctx.nontriv((a, b))
    ctx.rule = ("texts: %d distinct (PEP 440 records in canonical and 2 alternate spellings, one-code-point noise, bumpver-style and arbitrary legacy text); "
                "events: every text classified and printed, seeded pairs (incl. all reflexive pairs) and triples; non-trivial = distinct ordered pairs a != b" % n)
    for t in texts[3:6]:
        ctx.sample(dict(text=t))
    ctx.sample(dict(pair=[texts[pairs[len(pairs) // 2][0]], texts[pairs[len(pairs) // 2][1]]]))
    ctx.assumptions += ["texts <= 40 code points, ASCII plus a few non-cased non-ASCII symbols", "packaging/pkg_resources semantics of legacy ordering as written in BVPep440 (token rule)"]
