"""C07 - literal pattern text matches only itself."""
import os
import random
import itertools
from .. import tlc, drive, glue, project
from ..core import Machinery

ALPHABET = [chr(c) for c in range(32, 127) if not chr(c).isupper()]
META = "|^$\\.*+?(){}-"


def spell(lit):
    """pattern spelling of a literal text (brackets escaped)"""
    return lit.replace("[", "\\[").replace("]", "\\]")


def _residual(body):
    """which of the characters of findings S4b/S4c (inner ^, inner $, backslash not escaping a bracket) the pattern text contains"""
    out = ""
    if "^" in body[1:]:
        out += "^"
    if "$" in body[:-1]:
        out += "$"
    if "\\" in body.replace("\\[", "").replace("\\]", ""):
        out += "\\"
    return out


def lines_for(rng, lit):
    out = {lit, "x" + lit + "y", lit + lit, "", "zz", lit.upper(), lit.title(), "x" + lit.swapcase()}       # the same text in another letter case is another text
    for _ in range(3):
        if lit:
            q = rng.randrange(len(lit))
            out.add(lit[:q] + rng.choice(["x", ".", "|", "\\", "5"]) + lit[q + 1:])
            out.add(lit[:q] + lit[q + 1:])
            out.add(lit[:q] + rng.choice(["x", "."]) + lit[q:])
    if "|" in lit:
        out.update(lit.split("|"))
    return sorted(out)


def _search_batch(job):
    """library level: the code's compiled regex on lines"""
    out = []
    from bumpver import v2patterns, parse
    for kind, pat, lines in job:
        try:
            cp_ = v2patterns.compile_pattern(pat)
            rx = cp_.regexp
        except Exception as ex:  # pylint:disable=broad-except
            # a pattern of the grammar (literal text with brackets escaped, no other backslash, no inner anchor) must compile: refusing it loses every occurrence
            legal = False
            if not _residual(pat.strip("^$")) and "\\" not in pat.replace("\\[", "").replace("\\]", ""):
                try:
                    glue.parse_pattern(pat, file_pattern=True, ambiguous="rtl" if kind == "adjacent" else "reject")
                    legal = True
                except glue.OutsideGrammar:
                    pass
            if legal:
                out.append(dict(refused="%s: %s" % (type(ex).__name__, ex), pat=pat, kind=kind))
            else:
                out.append(dict(unclassified="compile error %s: %s" % (type(ex).__name__, ex), pat=pat, kind=kind))
            continue
        try:
            P = glue.parse_pattern(pat, file_pattern=True, ambiguous="rtl" if kind == "adjacent" else "reject")
        except glue.OutsideGrammar as ex:
            out.append(dict(unclassified=str(ex), pat=pat, kind=kind))
            continue
        for k, line in enumerate(lines):
            m = rx.search(line)
            hit = list(m.span()) if m else [-1, -1]
            if k % 2 == 0:
                # ... and the way `update` finds occurrences: parse.iter_matches over the lines of a file (one match per pattern and line)
                ms = [x for x in parse.iter_matches([line], [cp_])]
                hit2 = list(ms[0].span) if ms else [-1, -1]
                if ms and len(line) > 0:
                    # the same line twice in one file (an empty line between): both are occurrences
                    ms3 = [x for x in parse.iter_matches([line, "", line], [cp_])]
                    if sorted(x.lineno for x in ms3) != [0, 2] or any(list(x.span) != hit2 for x in ms3):
                        hit2 = [-1, -1]
                if hit2 != hit and not (hit[0] == hit[1] and hit2 == [-1, -1]):        # an empty match is not an occurrence
                    out.append(dict(ev="search", P=P, line=glue.cp(line), hit=hit2, pat=pat, kind=kind, dbg="%r on %r (parse.iter_matches; the regexp itself gives %s)" % (pat, line, hit)))
            out.append(dict(ev="search", P=P, line=glue.cp(line), hit=hit, pat=pat, kind=kind,
                            dbg="%r on %r" % (pat, line)))
    return out


def _via_config(job):
    """the same, with the pattern taken through the config loader: written as a file pattern into a setup.cfg / bumpver.toml, loaded, and the loaded Pattern's regexp applied"""
    out = []
    from bumpver import config
    for syntax, pat, lines in job:
        try:
            P = glue.parse_pattern(pat, file_pattern=True)
        except glue.OutsideGrammar as ex:
            out.append(dict(unclassified=str(ex), pat=pat, kind="via-" + syntax))
            continue
        with drive.scratch_dir("c07cfg") as d:
            if syntax == "cfg":
                text = "[bumpver]\ncurrent_version = 2021.5\nversion_pattern = YYYY.MM\n\n[bumpver:file_patterns]\nf.txt =\n    %s\n" % pat
                name = "setup.cfg"
            else:
                text = "[bumpver]\ncurrent_version = \"2021.5\"\nversion_pattern = \"YYYY.MM\"\n\n[bumpver.file_patterns]\n\"f.txt\" = [%s]\n" % project.toml_str(pat)
                name = "bumpver.toml"
            with open(os.path.join(d, name), "w", encoding="utf-8") as f:
                f.write(text)
            with open(os.path.join(d, "f.txt"), "w") as f:
                f.write("x\n")
            cwd = os.getcwd()
            os.chdir(d)
            try:
                _c, cfg = config.init(project_path=".")
                pats = [p for p in cfg.file_patterns.get("f.txt", [])] if cfg is not None else None
            except Exception as ex:  # pylint:disable=broad-except
                pats = None
            finally:
                os.chdir(cwd)
        if not pats or len(pats) != 1:
            # a failure only counts against bumpver if the pattern itself compiles and - for TOML - the third-party reader can read the text at all
            excuse = None
            try:
                from bumpver import v2patterns as _v2p
                _v2p.compile_pattern(pat)
            except Exception as ex:  # pylint:disable=broad-except
                excuse = "the pattern does not compile at library level either (%s)" % type(ex).__name__
            if excuse is None and syntax == "toml":
                try:
                    import toml as _toml
                    got = _toml.loads(text)["bumpver"]["file_patterns"]["f.txt"]
                    if got != [pat]:
                        excuse = "the toml library itself reads the array as %r" % (got,)        # (it splits some strings that contain ," - not bumpver's doing)
                except Exception as ex:  # pylint:disable=broad-except
                    excuse = "the toml library cannot read this text (%s)" % type(ex).__name__
            if excuse:
                out.append(dict(unclassified=excuse, pat=pat, kind="via-" + syntax))
                continue
            out.append(dict(loadfail="the config loader did not hand on exactly one pattern for f.txt (%s)" % ("config rejected" if pats is None else "%d patterns" % len(pats)), pat=pat, kind="via-" + syntax))
            continue
        for line in lines:
            m = pats[0].regexp.search(line)
            out.append(dict(ev="search", P=P, line=glue.cp(line), hit=list(m.span()) if m else [-1, -1], pat=pat, kind="via-" + syntax,
                            dbg="%r (through %s) on %r" % (pat, name, line)))
    return out


def _grep_case(job):
    """end to end: which lines does `bumpver grep` report (matches placed from line 2 on: a match on line 1 of a longer file trips the unrelated defect S11)"""
    lit, idx = job
    import re
    pat = spell(lit) + " YYYY.MM"
    with drive.scratch_dir("c07") as d:
        proj = project.Project(os.path.join(d, "p"), vcs=None)
        lines = ["first line", "%s 2021.5" % lit, ("x%s 2021.5" % lit[1:]) if len(lit) > 1 else "q 2021.5", "%s 2021,5" % lit, "keep", "tail %s 2021.12 end" % lit, "last"]
        proj.write("f.txt", "\n".join(lines) + "\n")
        r = drive.cli(["grep", "--", pat, "f.txt"], cwd=proj.root)
    # every match is printed as a block of three numbered lines (previous, matched, next): matches are placed so that no block is clipped
    nums = [int(m.group(1)) for m in (re.match(r"^\s*(\d+): ", ln) for ln in r.stdout.split("\n")) if m]
    reported = set(nums[i + 1] for i in range(0, len(nums) - 2, 3)) if len(nums) % 3 == 0 else set([-1])
    try:
        P = glue.parse_pattern(pat, file_pattern=True)
    except glue.OutsideGrammar:
        return None
    return dict(ev="grep", P=P, lines=[glue.cp(x) for x in lines], reported=sorted(reported), pat=pat, kind="grep", exc=r.exc or "", exit=r.exit, dbg="grep %r -> lines %s" % (pat, sorted(reported)), out=r.stdout[:300])


def run(ctx):
    rng = random.Random(ctx.seed)
    drive.setup(hooks=False)
    N = ctx.pick(2, 3)
    res = tlc.run(tlc.module_text("mc/MC_C07.tla"), "INIT Init\nNEXT Next\nCONSTANT N = %d\nINVARIANT LiteralMeansItself\nINVARIANT AnchoredMeansWholeLine\nCHECK_DEADLOCK FALSE\n" % N,
                  name="MC_C07", workers=16, timeout=3400, xmx="8g")
    ctx.add_design(res, "MC_C07 all literals over 69 symbols up to length %d" % N)
    if res.violation:
        ctx.violation(dict(clause="design:" + res.violation), case=dict(state=res.trace[-1:]), check="design")
    if res.distinct != sum(69 ** k for k in range(1, N + 1)):
        raise Machinery("MC_C07: %d states, expected %d" % (res.distinct, sum(69 ** k for k in range(1, N + 1))))

    # ---- code -> spec
    lits = ["".join(t) for n in range(1, N + 1) for t in itertools.product(ALPHABET, repeat=n)]
    lits = [l for l in lits if not (len(l) > 1 and any(l[i] == "\\" and l[i + 1] in "[]" for i in range(len(l) - 1)))]   # backslash never directly before a bracket
    if ctx.quick:
        pass
    rnd = []
    for _ in range(ctx.pick(2500, 50000)):
        n = rng.randrange(3, 41)
        s = "".join(rng.choice(ALPHABET) if rng.random() < 0.7 else rng.choice(META) for _ in range(n))
        while any(s[i] == "\\" and s[i + 1] in "[]" for i in range(len(s) - 1)):
            s = s.replace("\\[", "\\x[").replace("\\]", "\\x]")
        rnd.append(s)
    jobs = []
    batch = []
    for lit in lits + rnd:
        if lit.startswith("^") or lit.endswith("$"):
            # a leading ^ / trailing $ is an anchor by the documented rule; as literals they are only tested inside
            lit = "a" + lit + "b"
        batch.append(("alone", spell(lit), lines_for(rng, lit)))
        if len(batch) >= 150:
            jobs.append(batch); batch = []
    # wrapped around real parts
    for lit in rng.sample(lits, min(len(lits), ctx.pick(1200, 20000))) + rnd[:ctx.pick(800, 20000)]:
        lit2 = rng.choice(["", "!", "|x", ")", lit[:2]])
        if lit.startswith("^") or lit2.endswith("$"):
            continue
        pat = spell(lit) + " YYYY.MM" + (" " + spell(lit2) if lit2 else "")
        core = lit + " 2021.5" + (" " + lit2 if lit2 else "")
        lines = [core, "x" + core + "y", lit + " 2021.13", lit[:-1] + " 2021.5" + (" " + lit2 if lit2 else ""), core.replace(" ", "  ", 1), "2021.5"]
        batch.append(("wrapped", pat, lines))
        if len(batch) >= 150:
            jobs.append(batch); batch = []
    # literal text around and BETWEEN real parts that occur twice in one pattern (a directory and a file name that both carry the date, ...)
    twice = [("0M", "07", "11", "13"), ("YYYY.MM", "2021.5", "2022.12", "2021.13"), ("MAJOR.MINOR[-TAG]", "1.2-beta", "1.2", "1.x"), ("0D", "09", "31", "32"),
             ("vYYYY0M.BUILD[-TAG]", "v202107.1001-rc", "v202107.1001", "v202113.1001"), ("0V", "07", "52", "54"), ("JJJ", "7", "365", "367")]
    for lit in rng.sample(lits, min(len(lits), ctx.pick(500, 8000))) + rnd[:ctx.pick(300, 8000)]:
        if lit.startswith("^") or lit.endswith("$") or not lit:
            continue
        part, v1, v2, bad = rng.choice(twice)
        l1, l3 = rng.choice(["rel-", "a=", "", "dir/"]), rng.choice(["", ".png", "; end", "|"])
        mid = " " + lit + " "
        pat = spell(l1) + part + spell(mid) + part + spell(l3)
        full = l1 + v1 + mid + v1 + l3
        lines = [full, "x" + full + "y", l1 + v1 + mid + v2 + l3, l1 + v1 + mid + bad + l3, l1 + v1 + mid, mid + v1 + l3, v1 + l3, l1 + v1, v1, l1 + v1 + mid.strip() + v1 + l3, ""]
        batch.append(("twice", pat, lines))
        if len(batch) >= 150:
            jobs.append(batch); batch = []
    # literal text that ends in a 0 directly in front of a part whose name starts like a zero-padded part (20YY, r0MM, level 0MAJOR): the right-most part name wins
    adj = [("YY", "23", "2023"), ("YYYY", "2023", "23"), ("MM", "7", "07x"), ("MAJOR.MINOR", "1.2", "x"), ("DD", "9", "0"), ("JJJ", "41", "x"), ("VV", "7", "x"), ("GGGG", "2023", "x"), ("WW", "7", "x")]
    for lit in rng.sample(lits, min(len(lits), ctx.pick(400, 6000))) + rnd[:ctx.pick(200, 6000)]:
        if lit.startswith("^") or lit.endswith("$"):
            continue
        part, val, other = rng.choice(adj)
        tail = rng.choice(["0", "00", "20", "x0", "."])
        pat = spell(lit) + tail + part
        full = lit + tail + val
        lines = [full, "x" + full + " y", lit + tail + other, lit + tail, lit + tail[:-1] + val, full.replace(tail + val, tail + " " + val, 1), lit + val, ""]
        batch.append(("adjacent", pat, lines))
        if len(batch) >= 150:
            jobs.append(batch); batch = []
    # anchors as first / last symbol
    for lit in rng.sample(lits, min(len(lits), 300)):
        if "^" in lit or "$" in lit:
            continue
        batch.append(("anchored", "^" + spell(lit) + "$", [lit, lit + "\n", "x" + lit, lit + "x", ""]))
    jobs.append(batch)
    events = []
    for part in drive.pmap(_search_batch, jobs, hooks=False):
        events += part
    # a sample of the wrapped patterns once more through the config loaders (INI syntax cannot express every literal: blanks at the ends, a leading # or ;)
    cjobs = []
    wrapped = [b for job in jobs for b in job if b[0] == "wrapped"]
    nw = ctx.pick(600, 8000)
    for k, (_kind, pat, lines) in enumerate(wrapped[:nw // 2] + wrapped[-(nw // 2):]):          # short exhaustive literals and long random ones
        quoted = ['"' + pat + '"', "'" + pat + "'"][k % 2] if k % 4 == 0 else pat       # a pattern wholly enclosed in quotes keeps them: they are literal text
        qlines = [ln if quoted == pat else quoted[0] + ln + quoted[0] for ln in lines] + ([lines[0]] if quoted != pat else [])
        syntax = "cfg" if k % 2 == 0 else "toml"
        if syntax == "cfg" and (quoted != quoted.strip() or quoted[:1] in "#;" or "\n" in quoted):        # (a % is just a % in this INI dialect)
            syntax = "toml"
        cjobs.append((syntax, quoted, qlines))
    for part in drive.pmap(_via_config, [cjobs[i:i + 40] for i in range(0, len(cjobs), 40)], hooks=False):
        events += part
    for e in [e for e in events if "loadfail" in e]:
        ctx.violation(dict(clause="search:config-loader-rejects-or-alters-the-pattern", kind=e["kind"], percent="%" in e["pat"]), case=dict(pattern=e["pat"], what=e["loadfail"]))
    events = [e for e in events if "loadfail" not in e]
    for e in [e for e in events if "refused" in e]:
        ctx.violation(dict(clause="search:pattern-of-the-grammar-refused", kind=e["kind"]), case=dict(pattern=e["pat"], what=e["refused"]))
    events = [e for e in events if "refused" not in e]
    uncl = [e for e in events if "unclassified" in e]
    events = [e for e in events if "unclassified" not in e]
    ctx.count("unclassified_patterns", len(uncl))
    for u in uncl[:3]:
        ctx.divergence("unclassified pattern", u)
    for i, e in enumerate(events):
        e["id"] = i + 1
    for k in ("alone", "wrapped", "twice", "adjacent", "anchored", "via-cfg", "via-toml"):
        ctx.count("events_" + k, sum(1 for e in events if e["kind"] == k))
    fails, st = tlc.validate_events("Trace_Text", [{k: v for k, v in e.items() if k not in ("pat", "kind")} for e in events], name="C07")
    ctx.add_trace(st)
    by_id = {e["id"]: e for e in events}
    for f in fails:
        e = by_id[f["id"]]
        pat = e["pat"]
        # which metacharacters does the literal text of the pattern contain (for finding keys)
        body = pat[1:] if e["kind"] == "anchored" else pat
        chars = sorted(set(c for c in body if c in "|^$\\") - (set() if e["kind"] != "anchored" else set()))
        facts = dict(clause=f["clause"], kind=e["kind"], bar="|" in body, residual_meta=_residual(body))
        ctx.violation(facts, case=dict(pattern=pat, line=glue.uncp(e["line"]), code_hit=e["hit"]), expected=f["detail"], observed=e["hit"])
    # end to end through `bumpver grep`: `grep` events (which lines are reported)
    gl = [l for l in rng.sample(lits, min(len(lits), ctx.pick(150, 3000))) if not l.startswith("^") and l.strip() == l and l]
    gev = [g for g in drive.pmap(_grep_case, [(l, i) for i, l in enumerate(gl)], hooks=False, chunksize=10) if g]
    for i, e in enumerate(gev):
        e["id"] = i + 1
    gfails, st = tlc.validate_events("Trace_Text", [{k: v for k, v in e.items() if k not in ("pat", "kind", "exc", "exit", "dbg", "out")} for e in gev], name="C07g")
    ctx.add_trace(st)
    gby = {e["id"]: e for e in gev}
    n_grep = len(gev)
    for f in gfails:
        e = gby[f["id"]]
        if e["exc"]:
            ctx.divergence("grep raised", dict(pattern=e["pat"], exc=e["exc"]))
            continue
        ctx.violation(dict(clause=f["clause"], kind="grep", bar="|" in e["pat"], residual_meta=_residual(e["pat"])), case=dict(pattern=e["pat"], out=e["out"]), expected=f["detail"])
    ctx.count("grep_cases", n_grep)
    ctx.evaluations = len(events) + n_grep
    for e in events:
        ctx.nontriv((e["pat"], tuple(e["line"])))
    ctx.rule = ("every literal over 69 symbols up to length %d plus seeded literals up to length 40 (30%% regex metacharacters), alone, wrapped around YYYY.MM, between two occurrences of the same parts, ending in 0 directly in front of a part, anchored, and a sample written into setup.cfg / bumpver.toml and loaded through the config loader; "
                "each against lines within edit distance 1; `bumpver grep` end to end on a sample; non-trivial = distinct (pattern, line)" % N)
    ctx.exhaustive = False
    for e in events[1000:1003]:
        ctx.sample(dict(what=e["dbg"], hit=e["hit"]))
    ctx.assumptions += ["lines <= ~90 code points", "a leading ^ and a trailing $ are anchors (documented); brackets only in escaped form, a backslash never directly before one"]
