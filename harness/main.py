import sys
import importlib
from . import core


def main():
    if len(sys.argv) < 2:
        print("usage: check Cxx [--tier quick|thorough] [--seed N] [--replay path]")
        return 2
    prop = sys.argv[1].upper()
    try:
        mod = importlib.import_module("harness.checks." + prop.lower())
    except ImportError as ex:
        print("MACHINERY-FAILURE no check for %s: %s" % (prop, ex))
        return 2
    return core.main_for(prop, mod.run, sys.argv[2:])


if __name__ == "__main__":
    sys.exit(main())
