"""Driving the real bumpver: in-process CLI (click CliRunner), library calls, parallel workers.

bumpver is imported from /repo/src as it is when the check starts (editable install of /venv; a check
can also be pointed at another tree with BUMPVER_SRC for self-tests on scratch copies)."""
import os
import sys
import json
import shutil
import logging
import tempfile
import datetime as dt
import contextlib
import concurrent.futures as cf
import multiprocessing as mp

if os.environ.get("BUMPVER_SRC"):
    sys.path.insert(0, os.environ["BUMPVER_SRC"])

from . import tlc  # noqa: E402

GUARD = "BUMPVER_VERIF_TRACE"
TODAY = dt.date(2026, 10, 3)


class _ListHandler(logging.Handler):
    def __init__(self):
        super().__init__(level=logging.DEBUG)
        self.records = []

    def emit(self, record):
        try:
            self.records.append((record.levelname, record.name, record.getMessage()))
        except Exception:  # pylint:disable=broad-except
            self.records.append((record.levelname, record.name, str(record.msg)))


_HANDLER = None
_TRACE_PATH = None


def setup(today=TODAY, hooks=True):
    """Prepare this process for driving bumpver in-process."""
    global _HANDLER, _TRACE_PATH
    import bumpver.version
    import bumpver.cli
    bumpver.version.TODAY = today
    root = logging.getLogger()
    if _HANDLER is None:
        _HANDLER = _ListHandler()
        # keep bumpver's own basicConfig from adding a stderr handler: a handler is already present
        root.addHandler(_HANDLER)
        root.setLevel(logging.INFO)
    if hooks and _TRACE_PATH is None:
        fd, _TRACE_PATH = tempfile.mkstemp(prefix="hooks-", suffix=".ndjson", dir=tlc.scratch_root())
        os.close(fd)
    if hooks:
        os.environ[GUARD] = _TRACE_PATH
    else:
        os.environ.pop(GUARD, None)


def cleanup():
    global _TRACE_PATH
    if _TRACE_PATH and os.path.exists(_TRACE_PATH):
        os.unlink(_TRACE_PATH)
    _TRACE_PATH = None


def _take_events():
    if not _TRACE_PATH or not os.path.exists(_TRACE_PATH):
        return []
    with open(_TRACE_PATH, "r+", encoding="utf-8") as f:
        lines = f.read().splitlines()
        f.seek(0)
        f.truncate()
    out = []
    for ln in lines:
        try:
            out.append(json.loads(ln))
        except ValueError:
            out.append({"ev": "unparsable", "raw": ln})
    return out


class Run:
    __slots__ = ("exit", "stdout", "logs", "events", "exc")

    def new_version(self):
        for ln in self.stdout.splitlines():
            if ln.startswith("New Version: "):
                return ln[len("New Version: "):]
        for lvl, _n, msg in self.logs:
            if msg.startswith("New Version: "):
                return msg[len("New Version: "):]
        return None

    def old_version(self):
        for lvl, _n, msg in self.logs:
            if msg.startswith("Old Version: "):
                return msg[len("Old Version: "):]
        return None

    def pep440(self):
        import re
        for ln in self.stdout.splitlines():
            m = re.match(r"^PEP440 +: (.*)$", ln)          # `test` and `show` pad the label differently
            if m:
                return m.group(1)
        return None

    def shown_version(self):
        for ln in self.stdout.splitlines():
            if ln.startswith("Current Version: "):
                return ln[len("Current Version: "):]
        return None

    def ev(self, kind):
        return [e for e in self.events if e.get("ev") == kind]


def cli(args, cwd=None, env=None):
    """Invoke `bumpver <args>` in this process. Returns Run (exit code, stdout, log records, hook events)."""
    from click.testing import CliRunner
    import bumpver.cli
    if _HANDLER is None:
        setup()
    _HANDLER.records = []
    _take_events()
    old_cwd = os.getcwd()
    old_env = {}
    for k, v in (env or {}).items():
        old_env[k] = os.environ.get(k)
        os.environ[k] = v
    try:
        if cwd:
            os.chdir(cwd)
        bumpver.cli._VERBOSE = 0
        res = CliRunner().invoke(bumpver.cli.cli, list(args))
    finally:
        os.chdir(old_cwd)
        for k, v in old_env.items():
            if v is None:
                os.environ.pop(k, None)
            else:
                os.environ[k] = v
    r = Run()
    r.exit = res.exit_code
    r.stdout = res.output
    r.logs = list(_HANDLER.records)
    r.events = _take_events()
    r.exc = None
    if res.exception is not None and not isinstance(res.exception, SystemExit):
        r.exc = "%s: %s" % (type(res.exception).__name__, res.exception)
    return r


def _init_worker(today, hooks):
    setup(today, hooks)


def pmap(fn, items, procs=16, today=TODAY, hooks=True, chunksize=1):
    """Run fn over items in worker processes (fork); fn must be a module-level function."""
    items = list(items)
    if not items:
        return []
    procs = max(1, min(procs, len(items)))
    if procs == 1:
        setup(today, hooks)
        try:
            w = _wrap(fn)
            return [w(x) for x in items]
        finally:
            cleanup()
    ctx = mp.get_context("fork")
    with cf.ProcessPoolExecutor(max_workers=procs, mp_context=ctx, initializer=_init_worker, initargs=(today, hooks)) as ex:
        return list(ex.map(_wrap(fn), items, chunksize=chunksize))


class CaseError(Exception):
    """a per-case function (run the implementation on one case and interpret what it did) raised: the implementation produced something the
    harness could not interpret - on the unchanged tree this never happens (the seed sweeps), so it is reported as a violation, not as a machinery failure"""
    def __init__(self, fn, item, tb):
        super().__init__(fn, item, tb)


class _wrap:
    """picklable wrapper: exceptions of the per-case function are re-raised as CaseError with the case and the traceback"""
    def __init__(self, fn):
        self.fn = fn

    def __call__(self, x):
        try:
            return self.fn(x)
        except CaseError:
            raise
        except Exception:  # pylint:disable=broad-except
            import traceback
            raise CaseError(getattr(self.fn, "__name__", "case"), repr(x)[:600], traceback.format_exc()[-3000:])


@contextlib.contextmanager
def scratch_dir(prefix="proj"):
    d = tlc.mkscratch(prefix)
    try:
        yield d
    finally:
        shutil.rmtree(d, ignore_errors=True)


def sweep_scratch():
    """remove leftover hook files of finished worker processes"""
    root = tlc.scratch_root()
    for fn in os.listdir(root):
        if fn.startswith("hooks-") and fn.endswith(".ndjson"):
            try:
                os.unlink(os.path.join(root, fn))
            except OSError:
                pass
