"""Projection and concretisation: the trusted glue between the specification's values and the
implementation's values.  Python moves bytes here; it decides nothing about properties.

  pattern string  <->  pattern AST (the JSON shape of spec/BVPattern.tla nodes)
  str             <->  list of code points
  V2VersionInfo   ->   version state record (None -> -1, bid as code points)
"""
import datetime as dt

PARTS = ["YYYY", "YY", "0Y", "GGGG", "GG", "0G", "Q", "MM", "0M", "DD", "0D", "JJJ", "00J", "WW", "0W", "UU", "0U",
         "VV", "0V", "MAJOR", "MINOR", "PATCH", "BUILD", "BLD", "TAG", "PYTAG", "NUM", "INC0", "INC1"]
PARTS_BY_LEN = sorted(PARTS, key=len, reverse=True)
UNDOCUMENTED = ["GITHASH", "HEXHASH"]
TAGS = ["final", "dev", "alpha", "beta", "rc", "post"]
PYTAG = {"final": "", "dev": "dev", "alpha": "a", "beta": "b", "rc": "rc", "post": "post", "preview": "rc"}
CAL_FIELDS = ["year_y", "year_g", "quarter", "month", "dom", "doy", "week_w", "week_u", "week_v"]
FIELD_OF = {"YYYY": "year_y", "YY": "year_y", "0Y": "year_y", "GGGG": "year_g", "GG": "year_g", "0G": "year_g",
            "Q": "quarter", "MM": "month", "0M": "month", "DD": "dom", "0D": "dom", "JJJ": "doy", "00J": "doy",
            "WW": "week_w", "0W": "week_w", "UU": "week_u", "0U": "week_u", "VV": "week_v", "0V": "week_v",
            "MAJOR": "major", "MINOR": "minor", "PATCH": "patch", "BUILD": "bid", "BLD": "bid", "TAG": "tag",
            "PYTAG": "pytag", "NUM": "num", "INC0": "inc0", "INC1": "inc1"}


def cp(s):
    return [ord(c) for c in s]


def uncp(a):
    return "".join(chr(c) for c in a)


class OutsideGrammar(Exception):
    pass


def _tokens_ltr(s):
    """Top-level tokenisation, left to right, longest part name first."""
    out = []
    i = 0
    while i < len(s):
        if s.startswith("\\[", i) or s.startswith("\\]", i):
            out.append(("lit", s[i + 1])); i += 2; continue
        if s[i] in "[]":
            out.append((s[i], s[i])); i += 1; continue
        for p in PARTS_BY_LEN:
            if s.startswith(p, i):
                out.append(("part", p)); i += len(p); break
        else:
            out.append(("lit", s[i])); i += 1
    return out


def _tokens_rtl(s):
    """As the implementation substitutes parts: right before left, longer before shorter."""
    n = len(s)
    marks = [None] * n
    cands = []
    for p in PARTS:
        i = s.find(p)
        while i >= 0:
            cands.append((-(i + len(p)), -len(p), i, p)); i = s.find(p, i + len(p))
    last = n + 1
    for _e, _l, i, p in sorted(cands):
        if i + len(p) <= last:
            marks[i] = p; last = i
    out = []
    i = 0
    while i < n:
        if marks[i]:
            out.append(("part", marks[i])); i += len(marks[i]); continue
        if s.startswith("\\[", i) or s.startswith("\\]", i):
            out.append(("lit", s[i + 1])); i += 2; continue
        if s[i] in "[]":
            out.append((s[i], s[i])); i += 1; continue
        out.append(("lit", s[i])); i += 1
    return out


def parse_pattern(s, file_pattern=False, ambiguous="reject"):
    """Pattern string -> AST.  Raises OutsideGrammar for strings the documented grammar does not cover
    (ambiguous juxtaposition of part names, undocumented parts, unbalanced brackets).
    ambiguous="rtl": where candidate part names overlap (a literal 0 in front of MM reads as 0M + M from the left), the right-most candidate wins -
    the rule the implementation has always applied (`20YY` is the literal 20 and the part YY)"""
    for u in UNDOCUMENTED:
        if u in s:
            raise OutsideGrammar("undocumented part " + u)
    pre, post = [], []
    if file_pattern:
        if s.startswith("^"):
            pre = [{"t": "bol"}]; s = s[1:]
        if s.endswith("$") and not s.endswith("\\$"):
            post = [{"t": "eol"}]; s = s[:-1]
    toks = _tokens_rtl(s)
    if ambiguous != "rtl" and toks != _tokens_ltr(s):
        raise OutsideGrammar("ambiguous part juxtaposition")
    pos = [0]

    def seq(depth):
        out, lit = [], []

        def flush():
            if lit:
                out.append({"t": "lit", "s": cp("".join(lit))}); lit.clear()
        while pos[0] < len(toks):
            k, val = toks[pos[0]]
            pos[0] += 1
            if k == "lit":
                lit.append(val)
            elif k == "part":
                flush(); out.append({"t": "part", "p": val})
            elif k == "[":
                flush(); out.append({"t": "opt", "body": seq(depth + 1)})
            else:
                if depth == 0:
                    raise OutsideGrammar("unbalanced ]")
                flush(); return out
        if depth != 0:
            raise OutsideGrammar("unclosed [")
        flush()
        return out
    return pre + seq(0) + post


def print_pattern(ast):
    out = []
    for n in ast:
        if n["t"] == "lit":
            out.append(uncp(n["s"]).replace("[", "\\[").replace("]", "\\]"))
        elif n["t"] == "part":
            out.append(n["p"])
        elif n["t"] == "opt":
            out.append("[" + print_pattern(n["body"]) + "]")
        elif n["t"] == "bol":
            out.append("^")
        elif n["t"] == "eol":
            out.append("$")
    return "".join(out)


def parts_in(ast):
    out = []
    for n in ast:
        if n["t"] == "part":
            out.append(n["p"])
        elif n["t"] == "opt":
            out.extend(parts_in(n["body"]))
    return out


def state(vinfo):
    """V2VersionInfo -> spec version state."""
    d = vinfo._asdict()
    out = {}
    for k, val in d.items():
        if k in ("githash", "hexhash"):
            continue
        if k == "bid":
            out[k] = cp(val)
        elif val is None:
            out[k] = -1
        else:
            out[k] = val
    return out


def make_vinfo(date=None, **kw):
    """Build a V2VersionInfo from a date (or no calendar at all) and keyword overrides."""
    from bumpver import version, v2version
    base = dict(major=0, minor=0, patch=0, bid="1000", tag="final", pytag="", githash="", hexhash="", num=0, inc0=0, inc1=1)
    if date is None:
        cal = {f: None for f in CAL_FIELDS}
    else:
        cal = v2version.cal_info(date)._asdict()
    base.update(cal)
    base.update(kw)
    if "tag" in kw and "pytag" not in kw:
        base["pytag"] = PYTAG[kw["tag"]]
    return version.V2VersionInfo(**base)


def flags(major=False, minor=False, patch=False, tag=None, tag_num=False, pin_increments=False, pin_date=False):
    return dict(major=bool(major), minor=bool(minor), patch=bool(patch), tag=tag or "none", tag_num=bool(tag_num),
                pin_increments=bool(pin_increments), pin_date=bool(pin_date))


def cli_flags(f, date=None):
    """flags record -> bumpver command line arguments."""
    a = []
    for k in ("major", "minor", "patch"):
        if f[k]:
            a.append("--" + k)
    if f["tag"] != "none":
        a += ["--tag", f["tag"]]
    if f["tag_num"]:
        a.append("--tag-num")
    if f["pin_increments"]:
        a.append("--pin-increments")
    if f["pin_date"]:
        a.append("--pin-date")
    elif date is not None:
        a += ["--date", date.isoformat()]
    return a


def ordinal(d):
    return d.toordinal()


def date_of(n):
    return dt.date.fromordinal(n)


def tla(obj):
    """Python value -> TLA+ expression text (dict -> record, list/tuple -> sequence, set -> set)."""
    if isinstance(obj, bool):
        return "TRUE" if obj else "FALSE"
    if isinstance(obj, int):
        return str(obj)
    if isinstance(obj, str):
        assert '"' not in obj and "\\" not in obj, obj
        return '"' + obj + '"'
    if isinstance(obj, dict):
        if not obj:
            return "<<>>"
        return "[" + ", ".join("%s |-> %s" % (k, tla(v)) for k, v in obj.items()) + "]"
    if isinstance(obj, (list, tuple)):
        return "<<" + ", ".join(tla(v) for v in obj) + ">>"
    if isinstance(obj, (set, frozenset)):
        return "{" + ", ".join(tla(v) for v in sorted(obj, key=repr)) + "}"
    raise TypeError(type(obj))


def gen_module(name, defs):
    """a TLA+ module of constant definitions: defs = {Name: python value}"""
    lines = ["---- MODULE %s ----" % name, "EXTENDS Integers", "\\* generated by the harness for one run; literal definitions instead of cfg constants"]
    for k, v in defs.items():
        lines.append("%s == %s" % (k, tla(v)))
    lines.append("====")
    return "\n".join(lines) + "\n"
