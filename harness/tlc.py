"""Running TLC and reading what it prints.

Every TLC run gets its own scratch directory (outside /repo and /verif) that holds the root
module, the cfg, TLC's metadir and any trace file; it is removed when the run is finished.
The specification modules in /verif/spec are found through -DTLA-Library.
"""
import os
import re
import json
import shutil
import tempfile
import subprocess as sp
import concurrent.futures as cf

VERIF = os.path.dirname(os.path.dirname(os.path.abspath(__file__)))
SPEC = os.path.join(VERIF, "spec")
JAR = "/opt/veriftools/tla/tla2tools.jar:/opt/veriftools/tla/CommunityModules-deps.jar"


class TLCError(Exception):
    """Machinery failure (parse error, evaluation error, timeout): exit code 2 of a check."""


def scratch_root():
    root = os.environ.get("VERIF_SCRATCH")
    if not root:
        root = os.path.join(tempfile.gettempdir(), "bvverif-%d" % os.getuid())
    os.makedirs(root, exist_ok=True)
    return root


def mkscratch(prefix="run"):
    return tempfile.mkdtemp(prefix=prefix + "-", dir=scratch_root())


class Result:
    def __init__(self):
        self.stdout = ""
        self.generated = 0       # states generated ("transitions" in the evidence sense)
        self.distinct = 0        # distinct states
        self.depth = 0
        self.printed = []        # values printed with PrintT that are JSON strings, decoded
        self.raw_printed = []    # other PrintT lines
        self.violation = None    # name of violated invariant / property, or "postcondition", "deadlock"
        self.error = None        # evaluation / parse error text
        self.trace = []          # counterexample states as text blocks
        self.coverage = {}       # action name -> (distinct, total) if -coverage was requested
        self.wall_s = 0.0

    @property
    def ok(self):
        return self.violation is None and self.error is None


_RE_STATS = re.compile(r"(\d+) states generated, (\d+) distinct states found")
_RE_DEPTH = re.compile(r"The depth of the complete state graph search is (\d+)")
_RE_INV = re.compile(r"Error: Invariant (\S+) is violated")
_RE_PROP = re.compile(r"Error: Action property (\S+) is violated|Error: Temporal properties were violated")
_RE_COV = re.compile(r"^<(\w+) line \d+, col \d+ to line \d+, col \d+ of module (\w+)>: (\d+):(\d+)")


def _parse(out, res):
    res.stdout = out
    for m in _RE_STATS.finditer(out):
        res.generated, res.distinct = int(m.group(1)), int(m.group(2))
    ms = re.search(r"The number of states generated: (\d+)", out)
    if ms and res.generated == 0:
        res.generated = res.distinct = int(ms.group(1))
    m = _RE_DEPTH.search(out)
    if m:
        res.depth = int(m.group(1))
    m = _RE_INV.search(out)
    if m:
        res.violation = m.group(1)
    elif _RE_PROP.search(out):
        mm = _RE_PROP.search(out)
        res.violation = mm.group(1) or "temporal"
    elif "Error: Deadlock reached" in out:
        res.violation = "deadlock"
    elif re.search(r"Error: The postcondition|Checking postcondition .* failed|Error: Postcondition", out):
        res.violation = "postcondition"
    elif "Error:" in out:
        i = out.index("Error:")
        res.error = out[max(0, i - 1500):i + 3000] if "Parsing or semantic analysis failed" in out else out[i:i + 3000]
    # ASSUME failures
    if res.error is None and re.search(r"Assumption line \d+.* is false", out):
        res.error = re.search(r"Assumption line \d+.*", out).group(0)
    for line in out.splitlines():
        if line.startswith('"') and line.endswith('"'):
            try:
                inner = json.loads(line)
                if inner[:1] in "{[":
                    res.printed.append(json.loads(inner))
                else:
                    res.raw_printed.append(inner)
                continue
            except ValueError:
                pass
        mc = _RE_COV.match(line)
        if mc:
            res.coverage[mc.group(1)] = (int(mc.group(3)), int(mc.group(4)))
    if res.violation and res.violation not in ("postcondition",):
        # counterexample: "State n: <...>" blocks
        blocks = re.split(r"\nState \d+: ", out)
        res.trace = [b.split("\n\n")[0] for b in blocks[1:]]
    return res


def run(root_module_text, cfg_text, *, name, workers=1, env=None, timeout=1800, xmx="4g",
        simulate=None, depth=None, coverage=False, deque=False, keep=False, extra_files=None, seed=None):
    """Run TLC on a root module given as text. Returns Result. Raises TLCError on machinery failure
    only if the output cannot be interpreted at all (callers decide about res.error)."""
    import time
    d = mkscratch(name)
    try:
        with open(os.path.join(d, name + ".tla"), "w") as f:
            f.write(root_module_text)
        with open(os.path.join(d, name + ".cfg"), "w") as f:
            f.write(cfg_text)
        for fn, text in (extra_files or {}).items():
            with open(os.path.join(d, fn), "w") as f:
                f.write(text)
        jopts = ["-XX:+UseParallelGC", "-Xss768m", "-Xmx" + xmx, "-DTLA-Library=" + os.pathsep.join([SPEC, os.path.join(SPEC, "trace"), os.path.join(SPEC, "mc")])]
        if deque:
            jopts.append("-Dtlc2.tool.queue.IStateQueue=StateDeque")
        cmd = ["java"] + jopts + ["-cp", JAR, "tlc2.TLC", "-workers", str(workers), "-metadir",
                                  os.path.join(d, "meta"), "-noGenerateSpecTE", "-config", name + ".cfg"]
        if simulate:
            cmd += ["-simulate", simulate]
        if depth:
            cmd += ["-depth", str(depth)]
        if seed is not None:
            cmd += ["-seed", str(seed)]
        if coverage:
            cmd += ["-coverage", "1"]
        cmd.append(name + ".tla")
        e = dict(os.environ)
        e.pop("JAVA_TOOL_OPTIONS", None)
        e.update(env or {})
        t0 = time.time()
        try:
            p = sp.run(cmd, cwd=d, env=e, stdout=sp.PIPE, stderr=sp.STDOUT, timeout=timeout)
        except sp.TimeoutExpired as ex:
            if simulate:
                out = (ex.stdout or b"").decode("utf-8", "replace")
                res = _parse(out, Result())
                res.wall_s = time.time() - t0
                res.timed_out = True
                return res
            raise TLCError("TLC timed out after %ss on %s" % (timeout, name))
        res = _parse(p.stdout.decode("utf-8", "replace"), Result())
        res.wall_s = time.time() - t0
        res.returncode = p.returncode
        res.dir = d
        if p.returncode != 0 and res.ok:
            res.error = "TLC exit code %d\n%s" % (p.returncode, res.stdout[-3000:])
        return res
    finally:
        if not keep:
            shutil.rmtree(d, ignore_errors=True)


def run_many(jobs, parallel=16):
    """jobs: list of kwargs dicts for run(). Returns results in order."""
    if not jobs:
        return []
    with cf.ThreadPoolExecutor(max_workers=parallel) as ex:
        futs = [ex.submit(run, **j) for j in jobs]
        return [f.result() for f in futs]


def module_text(path):
    with open(os.path.join(SPEC, path)) as f:
        return f.read()


TRACE_CFG = "INIT TraceInit\nNEXT TraceNext\nCHECK_DEADLOCK FALSE\nPOSTCONDITION TraceAccepted\n"


def validate_events(trace_module, events, *, name, parallel=16, chunk=None, timeout=1800, xmx="2g", shared=None):
    """Batch trace validation: `events` (list of dicts, each with an integer 'id') are written as
    ndjson chunks; each chunk is consumed by one TLC run of spec/trace/<trace_module>.tla (workers 1).
    Returns (fails, stats): fails = list of {"id":…, "clause":…, …} printed by the trace spec for
    events whose verdict is not ok; stats = dict(states, transitions, events, runs)."""
    if not events:
        return [], dict(states=0, transitions=0, events=0, runs=0, wall_s=0.0)
    n = len(events)
    if chunk is None:
        chunk = max(50, min(12000, (n + parallel - 1) // parallel))
    text = module_text(os.path.join("trace", trace_module + ".tla"))
    jobs = []
    dirs = []
    shared_env = {}
    if shared:
        # shared tables (e.g. TEXTS_FILE): one ndjson file used by every chunk
        sd = mkscratch("trs")
        dirs.append(sd)
        for var, rows in shared.items():
            fn = os.path.join(sd, var + ".ndjson")
            with open(fn, "w") as f:
                for row in rows:
                    f.write(json.dumps(row, sort_keys=True) + "\n")
            shared_env[var] = fn
    for k in range(0, n, chunk):
        part = events[k:k + chunk]
        d = mkscratch("tr")
        dirs.append(d)
        tf = os.path.join(d, "trace.ndjson")
        with open(tf, "w") as f:
            for e in part:
                f.write(json.dumps(e, sort_keys=True) + "\n")
        jobs.append(dict(root_module_text=text, cfg_text=TRACE_CFG, name=trace_module, workers=1,
                         env=dict(shared_env, TRACE_FILE=tf), timeout=timeout, xmx=xmx))
    try:
        results = run_many(jobs, parallel)
    finally:
        for d in dirs:
            shutil.rmtree(d, ignore_errors=True)
    fails = []
    st = dict(states=0, transitions=0, events=n, runs=len(jobs), wall_s=0.0)
    for k, r in enumerate(results):
        if r.error:
            raise TLCError("trace validation %s chunk %d: %s" % (trace_module, k, r.error))
        if r.violation:
            raise TLCError("trace validation %s chunk %d not fully consumed (%s)\n%s" % (trace_module, k, r.violation, r.stdout[-2000:]))
        st["states"] += r.distinct
        st["transitions"] += r.generated
        st["wall_s"] = max(st["wall_s"], r.wall_s)
        fails.extend(r.printed)
    return fails, st


STATEFUL_CFG = "INIT TraceInit\nNEXT TraceNext\nCHECK_DEADLOCK FALSE\nCONSTRAINT Furthest\nPOSTCONDITION TraceAccepted\n"


def _validate_runs_chunk(trace_module, runs, name, timeout, xmx):
    """validate a list of runs with a stateful trace spec; returns (rejected [(index, line)], states, transitions)"""
    rejected = []
    states = trans = 0
    offset = 0
    text = module_text(os.path.join("trace", trace_module + ".tla"))
    while offset < len(runs):
        d = mkscratch("trs")
        try:
            tf = os.path.join(d, "runs.ndjson")
            with open(tf, "w") as f:
                for r in runs[offset:]:
                    f.write(json.dumps(r, sort_keys=True) + "\n")
            res = run(text, STATEFUL_CFG, name=trace_module, workers=1, env={"TRACE_FILE": tf}, timeout=timeout, xmx=xmx)
        finally:
            shutil.rmtree(d, ignore_errors=True)
        if res.error:
            raise TLCError("stateful trace validation %s: %s" % (trace_module, res.error))
        states += res.distinct
        trans += res.generated
        if res.violation is None:
            break
        stuck = [p for p in res.printed if isinstance(p, dict) and "stuck_run" in p]
        if not stuck:
            raise TLCError("stateful trace validation %s: rejected without a position (%s)\n%s" % (trace_module, res.violation, res.stdout[-1500:]))
        k = stuck[-1]["stuck_run"]
        rejected.append((offset + k - 1, stuck[-1]["stuck_line"]))
        offset += k            # the runs before k were accepted; continue behind the rejected one
    return rejected, states, trans


def validate_runs(trace_module, runs, *, name, parallel=16, timeout=1800, xmx="2g"):
    """Stateful trace validation of many independent runs (each consumed by the spec's own actions).
    Returns (rejected, stats): rejected = list of (run index, line at which the spec could not follow)."""
    if not runs:
        return [], dict(states=0, transitions=0, events=0, runs=0, wall_s=0.0)
    import time
    t0 = time.time()
    n = len(runs)
    size = max(1, (n + parallel - 1) // parallel)
    chunks = [(k, runs[k:k + size]) for k in range(0, n, size)]
    with cf.ThreadPoolExecutor(max_workers=parallel) as ex:
        futs = [(k, ex.submit(_validate_runs_chunk, trace_module, part, name, timeout, xmx)) for k, part in chunks]
        out = [(k, f.result()) for k, f in futs]
    rejected = []
    st = dict(states=0, transitions=0, events=n, runs=len(chunks), wall_s=time.time() - t0)
    for k, (rej, s, t) in out:
        rejected += [(k + i, line) for i, line in rej]
        st["states"] += s
        st["transitions"] += t
    return rejected, st
