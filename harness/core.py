"""Check framework: tiers, seeds, evidence files, known findings, replay files, verdict lines.

A check is a function  run(ctx) -> None  that
  * adds TLC design-run statistics            ctx.add_design(result, what)
  * adds trace-validation statistics          ctx.add_trace(stats)
  * reports violations                        ctx.violation(facts, case, expected, observed)
  * reports divergences (not property-level)  ctx.divergence(...)
  * records samples and coverage counters     ctx.sample(...), ctx.count(key, n)
Exit code: 0 held / only known findings, 1 violation, 2 machinery failure.
"""
import os
import sys
import json
import time
import hashlib
import traceback

VERIF = os.path.dirname(os.path.dirname(os.path.abspath(__file__)))
FINDINGS_FILE = os.path.join(VERIF, "known_findings.json")
GUARD = "BUMPVER_VERIF_TRACE"


class Machinery(Exception):
    pass


def load_findings():
    if not os.path.exists(FINDINGS_FILE):
        return []
    with open(FINDINGS_FILE) as f:
        return json.load(f)


def _match(match, facts):
    for k, want in match.items():
        if k.endswith("_in"):
            if facts.get(k[:-3]) not in want:
                return False
        elif k.endswith("_prefix"):
            if not str(facts.get(k[:-7], "")).startswith(want):
                return False
        elif facts.get(k) != want:
            return False
    return True


class Ctx:
    def __init__(self, prop, tier, seed, replay=None):
        self.prop = prop
        self.tier = tier
        self.seed = seed
        self.replay = replay
        self.t0 = time.time()
        self.states = 0
        self.transitions = 0
        self.traces = 0
        self.evaluations = 0
        self.samples = []
        self.counters = {}
        self.design_runs = []
        self.violations = []
        self.known_hit = {}
        self.divergences = 0
        self.div_samples = []
        self.assumptions = []
        self.rule = ""
        self.nontrivial = set()
        self.exhaustive = None
        self.findings = [f for f in load_findings() if f.get("property") == prop and f.get("status") == "known"]

    def log(self, msg):
        if os.environ.get("VERIF_PROGRESS"):
            sys.stderr.write("[%6.1fs] %s\n" % (time.time() - self.t0, msg))
            sys.stderr.flush()

    # ---- coverage bookkeeping
    @property
    def quick(self):
        return self.tier == "quick"

    def pick(self, quick, thorough):
        return quick if self.tier == "quick" else thorough

    def count(self, key, n=1):
        self.counters[key] = self.counters.get(key, 0) + n

    def sample(self, s, limit=6):
        if len(self.samples) < limit:
            self.samples.append(s)

    def nontriv(self, key):
        """register a distinct non-trivial case (by a hashable key)"""
        self.nontrivial.add(key if isinstance(key, (str, int, tuple)) else json.dumps(key, sort_keys=True))

    def add_design(self, res, what):
        if res.error:
            raise Machinery("TLC error in %s: %s" % (what, res.error))
        self.states += res.distinct
        self.transitions += res.generated
        self.log("design %s: %d states %.1fs violation=%s" % (what, res.distinct, res.wall_s, res.violation))
        self.design_runs.append(dict(what=what, states=res.distinct, transitions=res.generated, depth=res.depth,
                                     wall_s=round(res.wall_s, 1), coverage={k: v[1] for k, v in res.coverage.items()}))

    def add_trace(self, st, n_traces=None):
        self.log("trace validation: %d events in %d runs, %.1fs" % (st["events"], st["runs"], st["wall_s"]))
        self.states += st["states"]
        self.transitions += st["transitions"]
        self.traces += st["events"] if n_traces is None else n_traces

    # ---- verdicts
    def violation(self, facts, case=None, expected=None, observed=None, check="trace"):
        """facts: flat dict identifying the failure (clause, part, value, ...) used for known-finding matching."""
        for f in self.findings:
            if _match(f["match"], facts):
                self.known_hit.setdefault(f["id"], dict(finding=f, n=0, example=dict(facts=facts, case=case)))["n"] += 1
                return "known"
        self.violations.append(dict(facts=facts, case=case, expected=expected, observed=observed, check=check))
        return "violation"

    def divergence(self, what, detail=None):
        self.divergences += 1
        if len(self.div_samples) < 5:
            self.div_samples.append(dict(what=what, detail=detail))

    # ---- finishing
    def write_replays(self):
        out = []
        d = os.path.join(VERIF, "replay")
        os.makedirs(d, exist_ok=True)
        seen = set()
        for v in self.violations:
            key = json.dumps(v["facts"], sort_keys=True, default=str)
            if key in seen:
                continue
            seen.add(key)
            if len(out) >= 10:
                break
            body = dict(property=self.prop, tier=self.tier, seed=self.seed, **v)
            h = hashlib.sha1(json.dumps(body, sort_keys=True, default=str).encode()).hexdigest()[:10]
            path = os.path.join(d, "%s-%s.json" % (self.prop, h))
            with open(path, "w") as f:
                json.dump(body, f, indent=1, sort_keys=True, default=str)
            out.append(path)
        return out

    def write_evidence(self, level="model_checking"):
        cov = dict(states=max(self.states, 0), transitions=max(self.transitions, 0),
                   traces_validated_against_impl=self.traces,
                   samples=self.samples or ["(no sample recorded)"],
                   evaluations=max(self.evaluations, 1), distinct_nontrivial=len(self.nontrivial),
                   rule=self.rule, design_runs=self.design_runs, counters=self.counters,
                   divergences=self.divergences, divergence_samples=self.div_samples,
                   known_findings_reproduced={k: v["n"] for k, v in self.known_hit.items()})
        if self.exhaustive is not None:
            cov["exhaustive"] = self.exhaustive
        ev = dict(property_id=self.prop, tier=self.tier, seed=self.seed, level=level, coverage=cov,
                  assumptions=self.assumptions, wall_s=round(time.time() - self.t0, 2),
                  violations=len(self.violations))
        d = os.environ.get("VERIF_EVIDENCE_DIR") or os.path.join(VERIF, "evidence")       # (runs against a scratch tree with a seeded change write elsewhere: tools/try_seed_copy.sh)
        os.makedirs(d, exist_ok=True)
        with open(os.path.join(d, self.prop + ".json"), "w") as f:
            json.dump(ev, f, indent=1, sort_keys=True, default=str)
        return ev


def main_for(prop, run, argv=None):
    import argparse
    ap = argparse.ArgumentParser()
    ap.add_argument("--tier", default=os.environ.get("VERIF_TIER") or "quick", choices=["quick", "thorough"])
    ap.add_argument("--seed", type=int, default=int(os.environ.get("VERIF_SEED") or 0))
    ap.add_argument("--replay", default=None)
    ap.add_argument("--verbose", action="store_true")
    args = ap.parse_args(argv)
    os.environ["PYTHONHASHSEED"] = "0"
    wanted = None
    if args.replay:
        # a replay file records tier, seed and the identifying facts of one violation: the (seeded, deterministic) run is repeated
        # and only a violation with the same facts counts
        with open(args.replay) as f:
            body = json.load(f)
        args.tier, args.seed, wanted = body.get("tier", args.tier), int(body.get("seed", args.seed)), body.get("facts")
        print("replaying %s: tier=%s seed=%s facts=%s" % (args.replay, args.tier, args.seed, json.dumps(wanted, default=str)[:300]))
    ctx = Ctx(prop, args.tier, args.seed, args.replay)
    ctx.verbose = args.verbose
    crashed = False
    try:
        run(ctx)
    except Exception as ex:  # machinery failure ... unless it is the interpretation of one case that failed
        from . import drive as _drive
        if isinstance(ex, _drive.CaseError):
            fn, item, tb = ex.args
            last = [ln for ln in tb.strip().splitlines() if ln.strip()][-1] if tb.strip() else ""
            print(tb)
            ctx.violation(dict(clause="observation-crashed: what the implementation did on this case could not be interpreted", where=fn, exception=last.split(":")[0][:80]),
                          case=dict(case=item, traceback=tb[-1500:]))
            crashed = True
        elif isinstance(ex, Machinery) and ctx.violations:
            # a guard of the check (too few successful runs, ...) fired AFTER violations had been recorded: the violations are the finding,
            # the guard only says that the run was not representative
            print("NOTE %s (%d violation(s) were recorded before this guard fired)" % (str(ex)[:300], len(ctx.violations)))
            crashed = True
        else:
            traceback.print_exc()
            print("MACHINERY-FAILURE property=%s %s: %s" % (prop, type(ex).__name__, str(ex)[:2000]))
            return 2
    if wanted is not None:
        same = [v for v in ctx.violations if json.dumps(v["facts"], sort_keys=True, default=str) == json.dumps(wanted, sort_keys=True, default=str)]
        if same:
            print("VIOLATION property=%s replay=%s" % (prop, args.replay))
            print("   reproduced %d time(s); first case: %s" % (len(same), json.dumps(same[0]["case"], default=str)[:1200]))
            return 1
        print("%s: the recorded violation did not recur on the current tree" % prop)
        return 0
    if (ctx.states < 1 or ctx.transitions < 1) and not crashed:
        print("MACHINERY-FAILURE property=%s no TLC states explored" % prop)
        return 2
    ev = ctx.write_evidence()
    for k, h in sorted(ctx.known_hit.items()):
        print("KNOWN-FINDING: property=%s %s [%s, reproduced %d time(s)]" % (prop, h["finding"]["what"], k, h["n"]))
    if ctx.verbose:
        for dvg in ctx.div_samples:
            print("DIVERGENCE:", json.dumps(dvg, default=str)[:400])
    if ctx.violations:
        paths = ctx.write_replays()
        for p in paths:
            print("VIOLATION property=%s replay=%s" % (prop, p))
        hist = {}
        for v in ctx.violations:
            k = json.dumps(v["facts"], sort_keys=True, default=str)
            hist[k] = hist.get(k, 0) + 1
        for k, n in sorted(hist.items(), key=lambda kv: -kv[1])[:12]:
            print("   %5d x %s" % (n, k[:400]))
        print("%s: %d violation(s) [%d distinct replay file(s)]" % (prop, len(ctx.violations), len(paths)))
        return 1
    print("%s %s: held — states=%d transitions=%d traces=%d divergences=%d wall=%.1fs" % (
        prop, args.tier, ctx.states, ctx.transitions, ctx.traces, ctx.divergences, ev["wall_s"]))
    return 0
