"""The pattern corpus, value pools and seeded generators shared by the checks (DESIGN.md section 3.3)."""
import random
import datetime as dt
from . import glue

# every pattern appearing in README / CHANGELOG / tests that is inside the documented grammar
DOC_PATTERNS = [
    "vYYYY.BUILD[-TAG]", "vYYYY0M.BUILD[-TAG]", "YYYY.BUILD[-TAG]", "MAJOR.MINOR.PATCH[PYTAGNUM]", "YYYY.0W", "YYYY.0U",
    "GGGG.0V", "MAJOR.MINOR.PATCH", "YYYY.MM[.PATCH]", "YYYY.MM.INC0", "YYYY.BUILD[PYTAGNUM]", "YYYY0M.BLD[PYTAGNUM]",
    "YYYY.MM[-TAGNUM]", "YYYY.MM.MINOR", "vYYYY.WW[-TAG]", "vYYYY.WW[-TAGNUM]", "YYYY.MM.PATCH", "YYYY.MM", "YYYY.WW",
    "YYYY.MM.INC1", "YYYY.BUILD", "YYYY.BLD[PYTAGNUM]", "YYYY.0M.0D", "vYYYYqQ.BUILD", "vYYYYMM", "vYYYY0M.BUILD[-TAG[NUM]]",
    "vYYYY.WW", "vYYYY.INC1[-PATCH]", "vYYYY.INC0[-PATCH]", "vYYYY.0M.MINOR", "YYYY.MM[.MINOR]", "YYYY.MM[.INC0]",
    "YYYY.MM.DD", "vYYYY0M.BUILD[-TAG][NUM]", "vYY.BLD[-TAG]", "vYY.BLD-TAG", "vYY.0M.0D[-TAG]",
    "vMAJOR.MINOR.PATCH[PYTAGNUM]", "v0Y.BUILD[-TAG]", "YYYYWW.PATCH", "YYYYUU.PATCH", "YYYY0M.PATCH[-TAG]", "YYYY0M.BUILD[-TAG]",
    "YYYY0M.BUILD", "YYYY.MM.PATCH[PYTAGNUM]", "YYYY.INC0[PYTAGNUM]", "YYYY.BLD", "YYYY.0M.PATCH[PYTAGNUM]", "YYYY.0M",
    "YYYY-0M-0D", "YY.0M.PATCH", "MAJOR.MINOR[.PATCH[PYTAGNUM]]", "GGGGVV.PATCH", "0Y0W.PATCH", "0Y0U.PATCH",
    "vMAJOR[.MINOR[.PATCH[-TAG[NUM]]]]", "vMAJOR.MINOR.PATCH[-TAG]", "MAJOR.MINOR.PATCH-TAG", "vMAJOR.MINOR.PATCH-TAGNUM",
    "vYYYYw0W.BUILD[-TAG]", "vYYYYwWW.BLD[-TAG]", "vYYYYd00J.BUILD[-TAG]", "vYYYYdJJJ.BUILD[-TAG]", "vGGGGwVV.BLD[PYTAGNUM]",
    "vGGGGw0V.BUILD[-TAG]", "vMAJOR[.MINOR[.PATCH]]", "BUILD", "release-MAJOR.MINOR\\[x\\]",
    # INC1 alone in an optional group (a group is omitted exactly when all its parts are zero: INC1 never is)
    "YYYY.MM[.INC1]", "vMAJOR.MINOR[.INC1]",
    # calendar parts that are not written most significant first (the comparison with the bump date is by significance, not by position)
    "MM.YYYY.INC0", "DD.MM.YYYY", "0M/YYYY-BUILD", "MAJOR.MINOR.PATCH+DD.MM.YYYY",
]

YEARS_Y = ["YYYY", "YY", "0Y"]
YEARS_G = ["GGGG", "GG", "0G"]
SUBS_Y = [["MM"], ["0M"], ["MM", "DD"], ["0M", "0D"], ["MM", "0D"], ["JJJ"], ["00J"], ["Q"], ["WW"], ["0W"], ["UU"], ["0U"]]
SUBS_G = [["VV"], ["0V"]]


def coherent_calendar_patterns(sep="."):
    """every coherent year x sub-part combination, padded and unpadded (property C14)"""
    out = []
    for y in YEARS_Y:
        out.append(y)
        for sub in SUBS_Y:
            out.append(sep.join([y] + sub))
    for g in YEARS_G:
        out.append(g)
        for sub in SUBS_G:
            out.append(sep.join([g] + sub))
    return out


def incoherent_calendar_patterns(sep="."):
    out = []
    for y in YEARS_Y:
        for w in ["VV", "0V"]:
            out.append(sep.join([y, w]))
    for g in YEARS_G:
        for w in ["WW", "0W", "UU", "0U"]:
            out.append(sep.join([g, w]))
    return out


FIXED_WIDTH = {"YYYY", "0Y", "GGGG", "0G", "Q", "0M", "0D", "00J", "0W", "0U", "0V"}
NUMERIC = ["MAJOR", "MINOR", "PATCH", "INC0", "INC1", "BUILD", "BLD"]
SEPS = [".", "-", "_", "+"]
PREFIXES = ["", "", "v", "ver-", "rel_", "x"]


def random_pattern(rng):
    """one derivation of the pattern grammar (DESIGN.md 3.3); every documented part can occur"""
    items = []
    used_fields = set()

    def take(part):
        f = glue.FIELD_OF[part]
        if f in used_fields:
            return False
        used_fields.add(f)
        return True
    # calendar head (optional)
    kind = rng.random()
    if kind < 0.55:
        if rng.random() < 0.8:
            y = rng.choice(YEARS_Y); sub = rng.choice(SUBS_Y + [[]])
        else:
            y = rng.choice(YEARS_G); sub = rng.choice(SUBS_G + [[]])
        for p in [y] + sub:
            if take(p):
                items.append(p)
    n_num = rng.choice([1, 1, 2, 3]) if items else rng.choice([2, 3, 3])
    pool = ["MAJOR", "MINOR", "PATCH"] if (not items or rng.random() < 0.4) else rng.sample(NUMERIC, len(NUMERIC))
    for p in pool[:n_num]:
        if take(p):
            items.append(p)
    if not items:
        items = ["MAJOR", "MINOR"]
        used_fields.update(["major", "minor"])
    # main body with separators; adjacency only after a fixed-width part
    s = rng.choice(PREFIXES)
    mainsep = rng.choice(SEPS[:2] if rng.random() < 0.8 else SEPS)
    n_main = rng.randrange(1, len(items) + 1)
    for i, p in enumerate(items[:n_main]):
        if i > 0:
            prev = items[i - 1]
            if prev in FIXED_WIDTH and rng.random() < 0.25:
                s += rng.choice(["", "w", "q", "d"]) if p not in ("MAJOR", "MINOR", "PATCH") else mainsep
            else:
                s += mainsep
        s += p
    # remaining items go into nested optional groups
    rest = items[n_main:]
    tail = ""
    tagkind = rng.random()
    tagpart = None
    if tagkind < 0.3 and "tag" not in used_fields:
        tagpart = rng.choice(["[-TAG]", "[-TAG[NUM]]", "[-TAGNUM]", "-TAG", "[.TAG]"])
    elif tagkind < 0.55 and "pytag" not in used_fields:
        tagpart = rng.choice(["[PYTAGNUM]", "[PYTAG[NUM]]", "[.PYTAGNUM]"])
    depth = 0
    for p in rest:
        if p in ("BUILD", "BLD", "INC1") or glue.FIELD_OF[p] in glue.CAL_FIELDS:
            s += mainsep + p          # parts without a zero value make no sense in an optional group
        else:
            tail += "[" + mainsep + p
            depth += 1
    if tagpart and depth and rng.random() < 0.5:
        tail += tagpart + "]" * depth
    else:
        tail += "]" * depth + (tagpart or "")
    return s + tail


def _flat(ast):
    out = []
    for n in ast:
        if n["t"] == "opt":
            out += _flat(n["body"])
        else:
            out.append(n)
    return out


def _firsts(seq):
    """the tokens a text matching `seq` can start with (optional groups may be skipped); second value: can `seq` match the empty text"""
    out = []
    for n in seq:
        if n["t"] == "opt":
            out += _firsts(n["body"])[0]
            continue
        out.append(n)
        return out, False
    return out, True


def _pairs(seq, follow):
    """(token, possible next token) pairs; `follow` = the nodes after this sequence in the enclosing pattern"""
    out = []
    for i, n in enumerate(seq):
        rest = list(seq[i + 1:]) + list(follow)
        if n["t"] == "opt":
            out += _pairs(n["body"], rest)
        else:
            f, _ = _firsts(rest)
            out += [(n, x) for x in f]
    return out


def ambiguous_juxtaposition(pattern):
    """a variable-width numeric part that can be followed directly by another numeric part (optional groups in between may be skipped):
    the decomposition of a version text is then not unique (`BUILD[-TAG][NUM]`, `YYMM`) - outside the pattern grammar of the properties"""
    ast = glue.parse_pattern(pattern)
    for a, b in _pairs(ast, []):
        if a["t"] == "part" and b["t"] == "part" and a["p"] not in ("TAG", "PYTAG") and b["p"] not in ("TAG", "PYTAG") and a["p"] not in FIXED_WIDTH:
            return True
    return False


def corpus(rng, n_random, include_doc=True):
    pats = []
    seen = set()

    def add(p):
        if p in seen:
            return
        try:
            if ambiguous_juxtaposition(p):
                return
        except glue.OutsideGrammar:
            return
        seen.add(p)
        pats.append(p)
    if include_doc:
        for p in DOC_PATTERNS:
            add(p)
        for p in coherent_calendar_patterns():
            add(p)
            add("v" + p + ".PATCH")
    tries = 0
    target = len(pats) + n_random
    while len(pats) < target and tries < n_random * 20:
        tries += 1
        add(random_pattern(rng))
    return pats


# ---- value pools
NUM_POOL = [0, 1, 9, 10, 99, 100, 2 ** 20]
BUILD_POOL = ["1", "7", "0001", "0099", "0999", "1000", "1001", "1999", "9998", "22000", "09999", "899999", "0100", "11000"]
TAGNUM_POOL = [0, 1, 9, 10]


def boundary_dates():
    out = []
    for y in (2023, 2024):
        for m in range(1, 13):
            out.append(dt.date(y, m, 1))
            nxt = dt.date(y + (m == 12), (m % 12) + 1, 1)
            out.append(nxt - dt.timedelta(days=1))
    out += [dt.date(2001, 1, 1), dt.date(2099, 12, 31), dt.date(2016, 2, 29), dt.date(2021, 1, 3), dt.date(2021, 1, 4)]
    return sorted(set(out))


def new_year_dates(span=4, first=2001, last=2099):
    out = []
    for y in range(first, last + 1):
        for k in range(-span, span + 1):
            d = dt.date(y, 1, 1) + dt.timedelta(days=k)
            if first <= d.year <= last:
                out.append(d)
    return sorted(set(out))


def week53_dates(first=2001, last=2099):
    out = []
    d = dt.date(first, 1, 1)
    end = dt.date(last, 12, 31)
    while d <= end:
        if d.strftime("%W") == "53" or d.strftime("%U") == "53":
            out.append(d)
        d += dt.timedelta(days=1)
    return out


def random_date(rng, first=2001, last=2099):
    a = dt.date(first, 1, 1).toordinal()
    b = dt.date(last, 12, 31).toordinal()
    return dt.date.fromordinal(rng.randrange(a, b + 1))


DATE_OFFSETS = [0, 1, 31, 366, -1, -365, 7, 40]


def random_state_kw(rng, boundary=0.6):
    """keyword values of a version state (numeric, build, tag parts); calendar comes from a date"""
    pick = (lambda pool: rng.choice(pool)) if rng.random() < boundary else (lambda pool: rng.choice(pool[:4]))
    tag = rng.choice(glue.TAGS + ["final", "final"] + (["preview"] if rng.random() < 0.3 else []))        # "preview": a spelling the recogniser accepts for a release candidate
    return dict(major=pick(NUM_POOL), minor=pick(NUM_POOL), patch=pick(NUM_POOL), bid=rng.choice(BUILD_POOL),
                tag=tag, num=rng.choice(TAGNUM_POOL) if tag != "final" else 0,
                inc0=pick(NUM_POOL[:5]), inc1=rng.choice([1, 2, 10, 100]))


def random_flags(rng, pattern):
    f = glue.flags(
        major=rng.random() < 0.2 and "MAJOR" in pattern,
        minor=rng.random() < 0.2 and "MINOR" in pattern,
        patch=rng.random() < 0.3 and "PATCH" in pattern,
        tag=rng.choice([None] * 5 + glue.TAGS),
        tag_num=rng.random() < 0.2,
        pin_increments=rng.random() < 0.15,
        pin_date=rng.random() < 0.2)
    return f


def all_flag_sets(pattern):
    """the 2^6 x 7 flag combinations applicable to a pattern (flags for absent parts are rejected by the CLI)"""
    out = []
    for bits in range(64):
        for tag in [None] + glue.TAGS:
            f = glue.flags(major=bits & 1, minor=bits & 2, patch=bits & 4, tag_num=bits & 8, pin_increments=bits & 16,
                           pin_date=bits & 32, tag=tag)
            if (f["major"] and "MAJOR" not in pattern) or (f["minor"] and "MINOR" not in pattern) or (f["patch"] and "PATCH" not in pattern):
                continue
            out.append(f)
    return out
