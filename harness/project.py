"""Scratch bumpver projects: configuration writers, file snapshots (concretisation side of the glue)."""
import os
import hashlib


def toml_str(s):
    """a TOML string literal that denotes exactly s"""
    plain = all(ord(c) >= 32 and ord(c) != 127 for c in s)
    if plain and '"' not in s and "\\" not in s:
        return '"' + s + '"'
    if plain and "'" not in s:
        return "'" + s + "'"
    out = ['"']
    for c in s:
        if c == '"':
            out.append('\\"')
        elif c == "\\":
            out.append("\\\\")
        elif c == "\n":
            out.append("\\n")
        elif c == "\r":
            out.append("\\r")
        elif c == "\t":
            out.append("\\t")
        elif ord(c) < 32 or ord(c) == 127:
            out.append("\\u%04x" % ord(c))
        else:
            out.append(c)
    out.append('"')
    return "".join(out)


def bumpver_toml(current_version, version_pattern, file_patterns, commit=False, tag=False, push=False, extra=None, section="bumpver"):
    """file_patterns: list of (path, [raw patterns]) in configuration order (paths may repeat only via distinct keys)"""
    lines = ["[%s]" % section, "current_version = %s" % toml_str(current_version), "version_pattern = %s" % toml_str(version_pattern)]
    for k, v in (extra or {}).items():
        lines.append("%s = %s" % (k, toml_str(v) if isinstance(v, str) else ("true" if v else "false")))
    lines += ["commit = %s" % ("true" if commit else "false"), "tag = %s" % ("true" if tag else "false"), "push = %s" % ("true" if push else "false"), "",
              "[%s.file_patterns]" % section]
    for path, pats in file_patterns:
        lines.append("%s = [%s]" % (toml_str(path) if not path.replace(".", "").replace("_", "").replace("-", "").isalnum() else '"%s"' % path,
                                    ", ".join(toml_str(p) for p in pats)))
    return "\n".join(lines) + "\n"


class Project:
    def __init__(self, root, vcs="git"):
        self.root = root
        os.makedirs(root, exist_ok=True)
        if vcs:
            os.makedirs(os.path.join(root, "." + vcs), exist_ok=True)

    def path(self, rel):
        return os.path.join(self.root, rel)

    def write(self, rel, data):
        p = self.path(rel)
        os.makedirs(os.path.dirname(p) or ".", exist_ok=True)
        if isinstance(data, str):
            data = data.encode("utf-8")
        with open(p, "wb") as f:
            f.write(data)

    def read(self, rel):
        with open(self.path(rel), "rb") as f:
            return f.read()

    def snapshot(self, with_mtime=False):
        """relpath -> bytes of every regular file below the root (dot files included, VCS dirs excluded)"""
        out = {}
        for dp, dns, fns in os.walk(self.root):
            dns[:] = [d for d in dns if d not in (".git", ".hg")]
            for fn in fns:
                p = os.path.join(dp, fn)
                rel = os.path.relpath(p, self.root)
                with open(p, "rb") as f:
                    data = f.read()
                out[rel] = (data, os.stat(p).st_mtime_ns) if with_mtime else data
        return out


def sha(data):
    return hashlib.sha256(data).hexdigest()[:16]
