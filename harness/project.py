"""Scratch bumpver projects: configuration writers, file snapshots (concretisation side of the glue)."""
import os
import hashlib


def toml_str(s):
    """a TOML string literal that denotes exactly s"""
    plain = all(ord(c) >= 32 and ord(c) != 127 for c in s)
    if plain and '"' not in s and "\\" not in s:
        return '"' + s + '"'
    if plain and "'" not in s:
        return "'" + s + "'"
    out = ['"']
    for c in s:
        if c == '"':
            out.append('\\"')
        elif c == "\\":
            out.append("\\\\")
        elif c == "\n":
            out.append("\\n")
        elif c == "\r":
            out.append("\\r")
        elif c == "\t":
            out.append("\\t")
        elif ord(c) < 32 or ord(c) == 127:
            out.append("\\u%04x" % ord(c))
        else:
            out.append(c)
    out.append('"')
    return "".join(out)


def bumpver_toml(current_version, version_pattern, file_patterns, commit=False, tag=False, push=False, extra=None, section="bumpver"):
    """file_patterns: list of (path, [raw patterns]) in configuration order (paths may repeat only via distinct keys)"""
    lines = ["[%s]" % section, "current_version = %s" % toml_str(current_version), "version_pattern = %s" % toml_str(version_pattern)]
    for k, v in (extra or {}).items():
        lines.append("%s = %s" % (k, toml_str(v) if isinstance(v, str) else ("true" if v else "false")))
    lines += ["commit = %s" % ("true" if commit else "false"), "tag = %s" % ("true" if tag else "false"), "push = %s" % ("true" if push else "false"), "",
              "[%s.file_patterns]" % section]
    for path, pats in file_patterns:
        lines.append("%s = [%s]" % (toml_str(path) if not path.replace(".", "").replace("_", "").replace("-", "").isalnum() else '"%s"' % path,
                                    ", ".join(toml_str(p) for p in pats)))
    return "\n".join(lines) + "\n"


def setup_cfg(current_version, version_pattern, file_patterns, commit=False, tag=False, push=False, extra=None, section="bumpver", quote=True):
    """the same configuration in setup.cfg syntax (values quoted like `bumpver init` writes them)"""
    q = (lambda s: '"%s"' % s) if quote else (lambda s: s)
    lines = ["[%s]" % section, "current_version = %s" % q(current_version), "version_pattern = %s" % q(version_pattern)]
    for k, v in (extra or {}).items():
        lines.append("%s = %s" % (k, q(v) if isinstance(v, str) else ("True" if v else "False")))
    lines += ["commit = %s" % ("True" if commit else "False"), "tag = %s" % ("True" if tag else "False"), "push = %s" % ("True" if push else "False"), "", "[%s:file_patterns]" % section]
    for path, pats in file_patterns:
        lines.append("%s =" % path)
        lines += ["    " + p for p in pats]
    return "\n".join(lines) + "\n"


FOREIGN = {"setup.cfg": ["", "[metadata]\nname = demo\n\n", "[bumpversion]\ncurrent_version = 9.9.9\ncommit = True\n\n[bumpversion:file:setup.py]\n\n"],
           "pyproject.toml": ["", "[build-system]\nrequires = [\"setuptools\"]\n\n[tool.black]\nline-length = 100\n\n", "[tool.bumpversion]\ncurrent_version = \"9.9.9\"\n\n"],
           "bumpver.toml": ["", "", "# project configuration\n\n"], "pycalver.toml": ["", "# written by the tool's predecessor\n\n"], ".bumpver.toml": ["", "# project configuration\n\n"]}


def config_file(fmt, current_version, version_pattern, file_patterns, commit=False, tag=False, push=False, extra=None, variant=0):
    """(file name, text) of one configuration in the format `fmt` (bumpver.toml / pyproject.toml / setup.cfg), preceded by what other tools may have
    left in the file (variant picks among FOREIGN[fmt])"""
    pre = FOREIGN[fmt][variant % len(FOREIGN[fmt])]
    if fmt == "setup.cfg":
        return fmt, pre + setup_cfg(current_version, version_pattern, file_patterns, commit, tag, push, extra)
    return fmt, pre + bumpver_toml(current_version, version_pattern, file_patterns, commit, tag, push, extra,
                                   section="tool.bumpver" if fmt == "pyproject.toml" else ("pycalver" if fmt == "pycalver.toml" else "bumpver"))


class Project:
    def __init__(self, root, vcs="git", gitfile=False):
        """vcs: which marker to create (the fake git/hg answers every query); gitfile: `.git` is a FILE pointing elsewhere, as in a linked
        worktree, a submodule or a --separate-git-dir repository (only meaningful for git)"""
        self.root = root
        os.makedirs(root, exist_ok=True)
        if vcs == "git" and gitfile:
            with open(os.path.join(root, ".git"), "w") as f:
                f.write("gitdir: /nonexistent/main/.git/worktrees/p\n")
        elif vcs:
            os.makedirs(os.path.join(root, "." + vcs), exist_ok=True)

    def path(self, rel):
        return os.path.join(self.root, rel)

    def write(self, rel, data):
        p = self.path(rel)
        os.makedirs(os.path.dirname(p) or ".", exist_ok=True)
        if isinstance(data, str):
            data = data.encode("utf-8")
        with open(p, "wb") as f:
            f.write(data)

    def read(self, rel):
        with open(self.path(rel), "rb") as f:
            return f.read()

    def snapshot(self, with_mtime=False):
        """relpath -> bytes of every regular file below the root (dot files included, VCS dirs excluded)"""
        out = {}
        for dp, dns, fns in os.walk(self.root):
            dns[:] = [d for d in dns if d not in (".git", ".hg")]
            for fn in fns:
                p = os.path.join(dp, fn)
                rel = os.path.relpath(p, self.root)
                with open(p, "rb") as f:
                    data = f.read()
                out[rel] = (data, os.stat(p).st_mtime_ns) if with_mtime else data
        return out


def sha(data):
    return hashlib.sha256(data).hexdigest()[:16]
