"""Python side of the fake git/hg: canned answers in, ordered command log out."""
import os

HERE = os.path.dirname(os.path.abspath(__file__))


class FakeVCS:
    def __init__(self, dirpath, tool="git"):
        self.dir = dirpath
        self.tool = tool
        os.makedirs(dirpath, exist_ok=True)
        open(os.path.join(dirpath, "log"), "wb").close()

    def env(self):
        return {"FAKEVCS_DIR": self.dir, "PATH": HERE + os.pathsep + os.environ.get("PATH", "")}

    def put(self, name, text):
        with open(os.path.join(self.dir, name), "w", encoding="utf-8", newline="") as f:
            f.write(text)

    def set(self, tags=None, tags_branch=None, status=None, remote=None, branches=None, fail=None, tags_remote=None, tags_branch_remote=None):
        if tags_remote is not None:
            self.put("tags_remote", "".join(t + "\n" for t in tags_remote))      # appended to the tag list by the first fetch
        if tags_branch_remote is not None:
            self.put("tags_branch_remote", "".join(t + "\n" for t in tags_branch_remote))      # ... and to the --merged listing
        if tags is not None:
            self.put("tags", "".join(t + "\n" for t in tags))
        if tags_branch is not None:
            self.put("tags_branch", "".join(t + "\n" for t in tags_branch))
        if status is not None:
            self.put("status", status)
        if remote is not None:
            self.put("remote", remote)
        if branches is not None:
            self.put("branches", branches)
        if fail is not None:
            self.put("fail", "".join(f + "\n" for f in fail))

    def clear_log(self):
        open(os.path.join(self.dir, "log"), "wb").close()

    def log(self):
        """ordered list of entries: ('cmd', name, argv) for VCS commands, ('hook', which, old, new) for hook markers"""
        with open(os.path.join(self.dir, "log"), "rb") as f:
            data = f.read()
        fields = data.split(b"\0")
        out = []
        i = 0
        pending = None
        while i < len(fields) - 1:
            n = int(fields[i].decode() or 0)
            rec = [x.decode("utf-8", "surrogateescape") for x in fields[i + 1:i + 1 + n]]
            i += 1 + n
            if rec and rec[0].startswith("="):
                if pending is not None:
                    out.append(("cmd", rec[0][1:], pending))
                    pending = None
            elif rec and rec[0] == "HOOK":
                out.append(("hook",) + tuple(rec[1:]))
            else:
                pending = rec
        return out

    def hg_commit_message(self):
        p = os.path.join(self.dir, "hg_commit_message")
        if os.path.exists(p):
            with open(p, "rb") as f:
                return f.read().decode("utf-8", "surrogateescape")
        return None


def write_hook(path, which, fakedir, succeed=True, unstartable=None, how=0):
    """a hook script that appends an order marker and its BUMPVER_* environment to the fake VCS log;
    unstartable: "noexec" (no executable bit) or "badinterp" (its #! interpreter does not exist) - the file exists but cannot be run;
    how: the way a failing hook ends - 0: exit 1, 1: exit 3, 2: killed by a signal (the process does not exit at all: its status is negative)"""
    end = "exit 0" if succeed else ["exit 1", "exit 3", "kill -KILL $$"][how % 3]
    with open(path, "w") as f:
        f.write("#!%s\nprintf '%%s\\0' 4 HOOK %s \"$BUMPVER_OLD_VERSION\" \"$BUMPVER_NEW_VERSION\" >> '%s/log'\n%s\n"
                % ("/nonexistent/interpreter" if unstartable == "badinterp" else "/bin/sh", which, fakedir, end))
    os.chmod(path, 0o644 if unstartable == "noexec" else 0o755)
