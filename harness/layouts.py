"""Generated project layouts (DESIGN.md C03/C04/C06/C13): files, configured patterns, placed occurrences.

A layout is concrete: file texts, a bumpver.toml, and for every configured file the ordered list of raw patterns and the
occurrences the generator placed (line, start, end, pattern index).  Whether the layout is well formed (the leftmost match of
each pattern on a line IS the placed occurrence) is decided by the spec's own Search in the trace spec, not here."""
import os
import random
import datetime as dt
from . import glue, project

VERSION_PATTERNS = ["vMAJOR.MINOR.PATCH[-TAG]", "vYYYY0M.BUILD[-TAG]", "MAJOR.MINOR.PATCH[PYTAGNUM]", "YYYY.MM[.INC0]", "vYYYY.0M.0D[-TAGNUM]", "YYYY.BUILD[PYTAGNUM]"]
RAW_FULL = ['ver={version}', 'pep={pep440_version}', '^__version__ = "{version}"$', 'badge/CalVer-{version}-blue', '"{pep440_version}"',
            'release {version} ({pep440_version})', 'version: {version},', "download/{pep440_version}.tar.gz"]
RAW_PARTIAL = {"YYYY": ['Copyright (c) 2018-YYYY x', '(c) YYYY ACME'], "MAJOR": ['docs vMAJOR.MINOR here', 'api/MAJOR/']}
FILL_PLAIN = ["lorem ipsum", "# comment: (a|b)*", "x = [a, b]", "", "   ", "tab\there", "see notes", "ver=", "pep= ", "foo.bar(baz)", "$HOME ^caret$"]
FILL_HOSTILE = ["naïve café ☃", "日本語のテキスト", "é combining", "ctrl\x01\x02\x7f", "zero​width", "digits ١٢٣ ２０２１", "\\d+ \\w .* [^a]", "emoji 🐍 v", "NUL-free \x0b\x0c",
                "{version} {pep440_version} {braces}", "quote ' \" ` $ %s %(x)s"]
SEPS = {"lf": "\n", "crlf": "\r\n", "cr": "\r"}


def _usable(part, vp):
    """a partial pattern is usable if its part is in the version pattern - or, for the year, if the version pattern has no calendar part at all
    (Copyright 2018-YYYY in a SemVer project: the year then comes from today's date)"""
    if part in vp:
        return True
    return part == "YYYY" and "MAJOR" in vp and not any(c in vp.replace("PYTAG", "").replace("MAJOR", "").replace("MINOR", "").replace("PATCH", "") for c in ("Y", "0M", "MM", "0D", "DD", "JJ", "00J", "Q", "WW", "0W", "UU", "0U", "VV", "0V", "GG"))


def render_old(vp, raw, vinfo):
    from bumpver import v2version, v2patterns
    return v2version.format_version(vinfo, v2patterns.normalize_pattern(vp, raw))


class Layout:
    def __init__(self):
        self.vp = None
        self.old_version = None
        self.files = {}        # relpath -> text
        self.entries = []      # config entries in order: (key, [raw patterns])   (key may be a glob)
        self.fpats = {}        # relpath -> [raw patterns] in the order the loader accumulates them
        self.occ = {}          # relpath -> [(line, start, end, pat_index)]   line 1-based, span 0-based end exclusive
        self.flags = []
        self.unconfigured = {}

    cfg_format = "bumpver.toml"      # which file holds the configuration (bumpver.toml / pyproject.toml / setup.cfg) ...
    cfg_variant = 0                  # ... and what other tools left in that file before it

    cfg_glob = False                 # a glob entry (*.toml / *.cfg) covers the config file itself, with a pattern for a second occurrence in it

    def config_text(self, commit=False, extra=None):
        entries = list(self.entries)
        if self.cfg_glob:
            entries.append(("*" + os.path.splitext(self.cfg_format)[1], ["note: {version}"]))
        text = project.config_file(self.cfg_format, self.old_version, self.vp, entries, commit=commit, tag=False, push=False, extra=extra, variant=self.cfg_variant)[1]
        text = text + ("\n# note: %s\n" % self.old_version if self.cfg_glob else "")
        return text.replace("\n", "\r\n") if self.cfg_crlf else text

    cfg_crlf = False                 # the config file itself has CRLF line endings

    def materialize(self, root, vcs=None, commit=False, extra=None):
        proj = project.Project(root, vcs=vcs)
        proj.write(self.cfg_format, self.config_text(commit=commit, extra=extra))
        for rel, text in list(self.files.items()) + list(self.unconfigured.items()):
            proj.write(rel, text.encode("utf-8"))
        return proj


def generate(rng, hostile=False, regimes=("lf", "crlf", "cr", "mixed"), max_files=5, max_pats=4, shared=0.5, glob=0.15, partial=0.3, legacy=False,
             stale=0.0, only_partial=0.0, repeat=0.15, touch=0.3, rglob=0.15, cfgformats=0.35, bare=0.2):
    """stale: probability that a file still shows an OLDER version (as after a branch switch or a missed update);
    only_partial: probability that a file carries partial patterns only (copyright year, MAJOR.MINOR);
    cfgformats: probability that the configuration lives in setup.cfg or pyproject.toml (after sections of other tools) instead of bumpver.toml;
    bare: probability that a file gets a bare {version} / {pep440_version} as its last pattern (overlapping earlier matches);
    rglob: probability that a file in a directory is configured through a recursive glob (top/**/name) together with siblings at other depths;
    touch: probability that two occurrences sharing a line are written without anything between them (end of one = start of the other)"""
    from bumpver import v2version
    lay = Layout()
    lay.vp = rng.choice(VERSION_PATTERNS)
    while True:
        date = dt.date(rng.randrange(2019, 2030), rng.randrange(1, 13), rng.randrange(1, 28))
        tag = rng.choice(["final", "final", "beta", "rc"])
        vinfo = glue.make_vinfo(date, major=rng.choice([0, 1, 9, 10]), minor=rng.choice([0, 1, 9]), patch=rng.choice([0, 3, 9, 99]), bid=rng.choice(["1001", "0099", "22000"]),
                                tag=tag, num=rng.choice([0, 1]) if tag != "final" else 0, inc0=rng.choice([0, 1, 9]))
        old = v2version.format_version(vinfo, lay.vp)
        if old:            # an all-zero version renders as the empty text (observation S12): not a usable current version
            break
    vinfo = v2version.parse_version_info(old, lay.vp)
    lay.old_version = old
    stale_vinfo = glue.make_vinfo(date - dt.timedelta(days=400), major=max(0, vinfo.major - 1), minor=vinfo.minor + 1, patch=1, bid="1000", tag="final", num=0, inc0=0)
    stale_text = v2version.format_version(stale_vinfo, lay.vp)
    stale_vinfo = v2version.parse_version_info(stale_text, lay.vp) if stale_text else vinfo
    lay.date = date
    lay.newdate = date + dt.timedelta(days=rng.choice([0, 1, 40, 400]))
    f = []
    if "MAJOR" in lay.vp:
        f = [rng.choice(["--patch", "--minor", "--major"])]
    if rng.random() < 0.2 and "TAG" in lay.vp:
        f += ["--tag", rng.choice(["beta", "rc", "final"])]
    lay.flags = f + ["--date", lay.newdate.isoformat()]
    fill = FILL_PLAIN + (FILL_HOSTILE if hostile else [])
    n_files = rng.randrange(1, max_files + 1)
    names = ["README.md", "src/pkg/__init__.py", "setup.py", "docs/conf.py", "CHANGES.txt"][:n_files]
    if rng.random() < 0.2:
        # names that start with a dot, at the top level and as a directory
        names = [{"setup.py": ".version", "docs/conf.py": ".github/workflows/ci.yml", "README.md": ".release-notes.md"}.get(x, x) for x in names]
    for fi, name in enumerate(names):
        raws = rng.sample(RAW_FULL, rng.randrange(1, max_pats + 1))
        partial_cands = [c for part, cands in RAW_PARTIAL.items() if _usable(part, lay.vp) for c in cands]
        if partial_cands and rng.random() < only_partial:
            raws = rng.sample(partial_cands, rng.randrange(1, min(2, len(partial_cands)) + 1))
        file_vinfo = stale_vinfo if rng.random() < stale else vinfo
        for part, cands in RAW_PARTIAL.items():
            if _usable(part, lay.vp) and rng.random() < partial and len(raws) < max_pats:
                raws.append(rng.choice(cands))
        # anchored patterns need a line of their own; keep at most one
        anchored = [r for r in raws if r.startswith("^")]
        raws = [r for r in raws if not r.startswith("^")] + anchored[:1]
        rng.shuffle(raws)
        bare_raw = None
        if rng.random() < bare and not any(r.startswith("^") for r in raws) and len(raws) < max_pats + 1:
            # a bare placeholder as the LAST pattern: on a line where an earlier pattern already matched, its left-most match lies inside that match (the same
            # place, suppressed); the same text further right on the line is then ordinary surrounding text
            bare_raw = rng.choice(["{pep440_version}", "{version}"])
            raws.append(bare_raw)
        def build_text(raws=raws, file_vinfo=file_vinfo):
            regime = rng.choice(list(regimes))
            sep = SEPS["crlf" if regime == "mixed" else regime]
            lines = [[(rng.choice(fill), None)] for _ in range(rng.randrange(1, 8))]
            for pi, raw in enumerate(raws):
                for _ in range(rng.choice([1, 1, 2])):
                    text = render_old(lay.vp, raw, file_vinfo)
                    if not text:
                        continue
                    if raw.startswith("^"):
                        lines.insert(rng.randrange(len(lines) + 1), [(text, pi)])
                    elif rng.random() < shared and lines:
                        # share a line with filler / other patterns' occurrences (at most one occurrence per pattern per line, no anchored line)
                        cand = [ln for ln in lines if all(p != pi for _t, p in ln) and not any(p is not None and raws[p].startswith("^") for _t, p in ln)]
                        if cand:
                            ln = rng.choice(cand)
                            ln.insert(rng.randrange(len(ln) + 1), (text, pi))
                            continue
                        lines.insert(rng.randrange(len(lines) + 1), [(text, pi)])
                    else:
                        lines.insert(rng.randrange(len(lines) + 1), [(rng.choice(["", "  ", "# "]), None), (text, pi), (rng.choice(["", " tail", "; x"]), None)])
            if bare_raw:
                bare_text = render_old(lay.vp, bare_raw, file_vinfo)
                for ln in lines:
                    holders = [t for t, p in ln if p is not None and raws[p] != bare_raw and bare_text and bare_text in t]
                    if holders and all(raws[p] != bare_raw for _t, p in ln if p is not None) and rng.random() < 0.6:
                        ln.append(("(pip install demo==%s)" % bare_text, None))          # unplaced: looks like an occurrence, is not one
            for ln in lines:
                # the text of an occurrence once more, further right on its line: a pattern has one occurrence per line (the left-most), the echo is surrounding text
                placed = [t for t, p in ln if p is not None]
                if placed and rng.random() < 0.15 and not any(p is not None and (raws[p].startswith("^") or raws[p].endswith("$")) for _t, p in ln):
                    ln.append(("(see also: %s)" % rng.choice(placed), None))
            out_lines = []
            occ = []
            for li, ln in enumerate(lines):
                s = ""
                for k, (t, p) in enumerate(ln):
                    touching = k > 0 and p is not None and ln[k - 1][1] is not None and rng.random() < touch
                    if k > 0 and s and not s.endswith(" ") and not touching:
                        s += " "
                    if p is not None:
                        occ.append((li + 1, len(s), len(s) + len(t), p + 1))
                    s += t
                out_lines.append(s)
            text = sep.join(out_lines) + (sep if rng.random() < 0.7 else "")
            if regime == "mixed" and len(out_lines) > 2:
                # another line ending inside a filler-only logical line
                idx = [i for i, ln in enumerate(lines) if all(p is None for _t, p in ln) and out_lines[i]]
                if idx:
                    i = rng.choice(idx)
                    k = len(out_lines[i]) // 2
                    out_lines[i] = out_lines[i][:k] + rng.choice(["\n", "\r"]) + out_lines[i][k:]
                    text = sep.join(out_lines) + (sep if text.endswith(sep) else "")
            # a byte order mark in front of the first line (files saved by Windows editors): a character of that line like any other - for a ^ pattern it is
            # in the way, so such a line stays without one
            if rng.random() < (0.2 if hostile else 0.1) and not any(p is not None and raws[p].startswith("^") for _t, p in lines[0]):
                text = "﻿" + text
                occ = [(ln, s + (1 if ln == 1 else 0), e + (1 if ln == 1 else 0), p) for ln, s, e, p in occ]
            return text, occ
        text, occ = build_text()
        lay.files[name] = text
        lay.fpats[name] = list(raws)
        lay.occ[name] = occ
        key = name
        sibling = None
        if rng.random() < rglob and "/" in name:
            # a recursive glob that covers this file and files at other depths (same patterns, texts of their own)
            top, base = name.split("/", 1)[0], os.path.basename(name)
            key = top + "/**/" + base
            for sib in (top + "/" + base, top + "/x/y/z/" + base):
                if sib not in lay.files and sib != name:
                    lay.files[sib], lay.occ[sib] = build_text()
                    lay.fpats[sib] = list(raws)
        elif rng.random() < glob and "/" in name:
            key = os.path.dirname(name) + "/*" + os.path.splitext(name)[1]
            # the glob covers a sibling file too (same patterns, a text of its own)
            sibling = os.path.dirname(name) + rng.choice(["/sibling", "/.hidden_sibling"]) + os.path.splitext(name)[1]       # a * covers names that start with a dot too
            lay.files[sibling], lay.occ[sibling] = build_text()
            lay.fpats[sibling] = list(raws)
        if len(raws) >= 2 and rng.random() < (repeat if sibling is None else 0.5) and "**" not in key:
            # a repeated entry for the same file under another spelling of its path: the loader accumulates the patterns
            k = rng.randrange(1, len(raws))
            lay.entries.append((key, list(raws[:k])))
            lay.entries.append((rng.choice(["./", ""]) + name if key != name else "./" + name, list(raws[k:])))
            if sibling is not None:
                # the second entry names ONE file: the sibling stays with the glob's patterns (its text still shows the others - as surrounding text)
                lay.fpats[sibling] = list(raws[:k])
                lay.occ[sibling] = [o for o in lay.occ[sibling] if o[3] <= k]
        else:
            lay.entries.append((key, list(raws)))
    if rng.random() < 0.15:
        # a general pattern listed BEFORE a pattern whose text encloses it: where the enclosing match contains the general one it is suppressed (line 1), where the
        # general pattern's left-most match lies elsewhere on the line both are occurrences (line 2)
        gen_raw = rng.choice(["{version}", "{pep440_version}"])
        T = render_old(lay.vp, gen_raw, vinfo)
        if T and "(" not in T:
            name = "notes/enclosed.txt"
            lay.files[name] = "released (%s) - stable\n%s and again (%s)\nend\n" % (T, T, T)
            lay.fpats[name] = [gen_raw, "(" + gen_raw + ")"]
            lay.occ[name] = [(1, 10, 10 + len(T), 1), (2, 0, len(T), 1), (2, len(T) + 11, 2 * len(T) + 13, 2)]
            lay.entries.append((name, list(lay.fpats[name])))
    if not legacy and rng.random() < cfgformats:
        lay.cfg_format = rng.choice(["setup.cfg", "pyproject.toml", "setup.cfg", "pyproject.toml", "pycalver.toml", ".bumpver.toml"])      # pycalver.toml with a [pycalver] section: written by the tool's predecessor
        lay.cfg_variant = rng.randrange(3)
    lay.cfg_glob = (not legacy) and rng.random() < 0.12
    lay.cfg_crlf = rng.random() < 0.15
    lay.unconfigured = {"NOTES.txt": "notes about %s\n" % old, ".hidden": old + "\r\n", "src/other.py": "# %s\n" % old}
    # ... and files that stand next to configured ones under the names a careless writer might use for its scratch copies
    for q, name in enumerate(sorted(lay.files)[:2]):
        lay.unconfigured[name + [".tmp", ".bak"][q]] = "not a scratch file: %s\n" % old
    return lay


def file_events(lay, before, after, exit_code, new_version, expect_ok=True):
    """one `rewrite` event per configured file (the config file's implicit self-pattern included)"""
    from bumpver import v2version, v2patterns
    evs = []
    if new_version is None:
        return evs
    try:
        newv = glue.state(v2version.parse_version_info(new_version, lay.vp))
    except Exception:  # pylint:disable=broad-except
        return evs
    for name, raws in lay.fpats.items():
        pats = []
        for raw in raws:
            pats.append(glue.parse_pattern(v2patterns.normalize_pattern(lay.vp, raw), file_pattern=True))
        try:
            old = before[name].decode("utf-8")
            new = after[name].decode("utf-8", "replace")          # a result that is not UTF-8 any more must not escape the comparison
        except (KeyError, UnicodeDecodeError):
            continue
        evs.append(dict(ev="rewrite", old=glue.cp(old), new=glue.cp(new), ok=exit_code == 0, pats=pats, v=newv,
                        occ=[dict(line=a, start=b, end=c, pat=d) for a, b, c, d in lay.occ[name]], expect_ok=expect_ok, file=name))
    return evs
