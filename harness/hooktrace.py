"""The repository's own test-suite as a trace driver (DESIGN.md 4.1): the suite runs on a scratch copy of /repo's CURRENT
working tree with the hook guard set; the recorded events are turned into events of the batch trace specs, so that executions
the harness did not script are validated against the specification too."""
import os
import sys
import json
import shutil
import subprocess as sp
from . import tlc, glue, drive

REPO = os.environ.get("BUMPVER_REPO", "/repo")


def collect(timeout=900):
    """run the suite with hooks on; returns (events, summary line of pytest)"""
    d = tlc.mkscratch("suite")
    try:
        dst = os.path.join(d, "repo")
        sp.run(["rsync", "-a", "--exclude", ".git", "--exclude", "__pycache__", "--exclude", "*.pyc", REPO + "/", dst + "/"], check=True)
        trace = os.path.join(d, "events.ndjson")
        env = dict(os.environ, PYTHONPATH=os.path.join(dst, "src"), BUMPVER_VERIF_TRACE=trace, PYTHONHASHSEED="0")
        p = sp.run([sys.executable, "-m", "pytest", "-q", "-p", "no:cacheprovider", "--timeout=900", "--continue-on-collection-errors", "--deselect", "scripts",
                    "-k", "not hg", "test"], cwd=dst, env=env, stdout=sp.PIPE, stderr=sp.STDOUT, timeout=timeout)
        out = p.stdout.decode("utf-8", "replace")
        events = []
        if os.path.exists(trace):
            with open(trace, encoding="utf-8") as f:
                for ln in f:
                    try:
                        events.append(json.loads(ln))
                    except ValueError:
                        pass
        return events, out.strip().splitlines()[-1] if out.strip() else ""
    finally:
        shutil.rmtree(d, ignore_errors=True)


def invocations(events):
    """group events by CLI invocation (cli.start ... next cli.start of the same process)"""
    runs = []
    cur = {}
    for e in sorted(events, key=lambda e: (e.get("pid", 0), e.get("seq", 0))):
        pid = e.get("pid")
        if e.get("ev") == "cli.start":
            cur[pid] = dict(start=e, events=[])
            runs.append(cur[pid])
        elif pid in cur:
            cur[pid]["events"].append(e)
    return runs


def _pattern(p):
    if p is None or "{" in p or "}" in p:
        return None
    try:
        return glue.parse_pattern(p)
    except glue.OutsideGrammar:
        return None


def _ord(datestr):
    import datetime as dt
    return dt.date.fromisoformat(datestr).toordinal()


def to_text_events(events):
    """incr / gate / validtags events for Trace_Text"""
    out = []
    skipped = 0
    for run in invocations(events):
        st = run["start"]
        if st.get("cmd") not in ("test", "update"):
            continue
        f = glue.flags(major=st.get("major"), minor=st.get("minor"), patch=st.get("patch"), tag=st.get("tag"), tag_num=st.get("tag_num"),
                       pin_increments=st.get("pin_increments"), pin_date=st.get("pin_date"))
        for e in run["events"]:
            if e["ev"] == "incr" and st.get("set_version") is None:
                P = _pattern(e.get("pattern"))
                if P is None or e.get("old") is None or f["tag"] not in ["none"] + glue.TAGS:
                    skipped += 1
                    continue
                today = _ord(e["today"])
                date = _ord(e["date"]) if e.get("date") else today
                if not (1000 <= int(e["today"][:4]) <= 9999):
                    continue
                out.append(dict(ev="incr", mode="lib", P=P, old=glue.cp(e["old"]), f=f, date=date, today=today, out=glue.cp(e["new"]) if e.get("new") else [0],
                                dbg="repo test: %s %s %s %s -> %s" % (st["cmd"], e.get("pattern"), e["old"], {k: v for k, v in f.items() if v and v != "none"}, e.get("new"))))
            elif e["ev"] == "gate":
                P = _pattern(e.get("pattern"))
                if P is None or e.get("old") is None or e.get("new") is None:
                    skipped += 1
                    continue
                out.append(dict(ev="gate", P=P, cfgver=glue.cp(e["old"]), tags=[], scope="default", ignore=True, old=[0], new=glue.cp(e["new"]) if e.get("ok") else [0],
                                exit=0 if e.get("ok") else 1, changed=False, today=drive.TODAY.toordinal(),
                                dbg="repo test: gate %s %s -> %s ok=%s" % (e.get("pattern"), e["old"], e["new"], e.get("ok"))))
    for i, e in enumerate(out):
        e["id"] = i + 1
    return out, skipped


def to_update_events(events):
    """per `update` invocation: the ordered VCS command / hook log (-> Trace_Update `order`) and every mutating command's argv (-> `argv`)"""
    out = []
    for run in invocations(events):
        if run["start"].get("cmd") != "update":
            continue
        log = []
        for e in run["events"]:
            if e["ev"] == "vcs.cmd":
                log.append(dict(kind="cmd", name=e["name"], old="", new=""))
                if e["name"] in ("add_path", "commit", "tag", "tag_light", "push", "push_tag") and e.get("vcs") == "git":
                    argv = e["argv"]
                    vals = {}
                    # the values are taken from the argv itself: what is checked is the SHAPE - fixed words in place, exactly one argument per hole
                    holes = {"add_path": {"path": 3}, "commit": {"message": 3}, "tag": {"tag": 3, "message": 5}, "tag_light": {"tag": 2}, "push_tag": {"remote": 2, "tag": 4}, "push": {"remote": 2}}[e["name"]]
                    if all(i < len(argv) for i in holes.values()):
                        vals = {k: glue.cp(argv[i]) for k, i in holes.items()}
                    out.append(dict(ev="shape", tool="git", name=e["name"], argv=[glue.cp(a) for a in argv], values=vals, dbg="repo test: %s argv=%r" % (e["name"], argv)))
            elif e["ev"] == "hook.start":
                which = "pre" if len([x for x in log if x["name"] == "commit"]) == 0 else "post"
                log.append(dict(kind="hook", name=which, old=e.get("old") or "", new=e.get("new") or ""))
        out.append(dict(ev="order", log=log, dry=bool(run["start"].get("dry")), fetch=bool(run["start"].get("fetch")),
                        dbg="repo test: update %s -> %s" % ({k: v for k, v in run["start"].items() if v not in (None, False) and k not in ("pid", "seq", "ev")}, [x["name"] for x in log])))
    for i, e in enumerate(out):
        e["id"] = i + 1
    return out
