---- MODULE TraceText ----
EXTENDS BVVersion, Json, IOUtils
Trace == ndJsonDeserialize(IOEnv.TRACE_FILE)
VARIABLE l
Init == l = 1
VFields == {"year_y","year_g","quarter","month","dom","doy","week_w","week_u","week_v","major","minor","patch","bid","tag","pytag","num","inc0","inc1"}
SameState(a, b) == IF IsBad(a) \/ IsBad(b) THEN IsBad(a) = IsBad(b) ELSE \A f \in VFields : a[f] = b[f]
DiffFields(a, b) == IF IsBad(a) \/ IsBad(b) THEN <<"bad", IsBad(a), IsBad(b)>> ELSE {<<f, a[f], b[f]>> : f \in {g \in VFields : a[g] # b[g]}}
Verdict(e) ==
  CASE e.ev = "render" -> LET t == Render(e.v, e.P) IN IF t = e.text THEN <<"ok">> ELSE <<"render", t>>
    [] e.ev = "parse"  -> LET v == ParseVersion(e.text, e.P, e.today) IN IF SameState(v, e.v) THEN <<"ok">> ELSE <<"parse", DiffFields(v, e.v)>>
    [] e.ev = "incr"   -> LET t == Incr(e.old, e.P, e.f, e.date, e.today, TRUE) IN IF t = e.out THEN <<"ok">> ELSE <<"incr", t>>
    [] OTHER -> <<"unknown-event">>
Next == l <= Len(Trace) /\ l' = l + 1 /\ LET v == Verdict(Trace[l]) IN v = <<"ok">> \/ PrintT(<<"FAIL", Trace[l].id, Trace[l].dbg, v>>)
Post == TLCGet("stats").diameter - 1 = Len(Trace)
====
