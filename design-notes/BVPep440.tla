---- MODULE BVPep440 ----
EXTENDS BVRegex

\* ---------- text helpers ----------
P_IsDigit(c) == c \in 48..57
P_IsLowerAZ(c) == c \in 97..122
P_Lower(s) == [q \in 1..Len(s) |-> IF s[q] \in 65..90 THEN s[q] + 32 ELSE s[q]]
P_WS == {32, 9, 10, 11, 12, 13}
RECURSIVE P_LStrip(_), P_RStrip(_)
P_LStrip(s) == IF s # <<>> /\ s[1] \in P_WS THEN P_LStrip(Tail(s)) ELSE s
P_RStrip(s) == IF s # <<>> /\ s[Len(s)] \in P_WS THEN P_RStrip(SubSeq(s, 1, Len(s)-1)) ELSE s
P_Strip(s) == P_RStrip(P_LStrip(s))
RECURSIVE P_DropZeros(_)
P_DropZeros(d) == IF Len(d) > 1 /\ d[1] = 48 THEN P_DropZeros(Tail(d)) ELSE d
RECURSIVE P_LexCmp(_,_)
P_LexCmp(a, b) == IF a = <<>> /\ b = <<>> THEN 0 ELSE IF a = <<>> THEN -1 ELSE IF b = <<>> THEN 1
                ELSE IF a[1] < b[1] THEN -1 ELSE IF a[1] > b[1] THEN 1 ELSE P_LexCmp(Tail(a), Tail(b))
\* natural numbers as digit sequences of any length
P_NatCmp(a, b) == LET x == P_DropZeros(a) y == P_DropZeros(b) IN
                IF Len(x) < Len(y) THEN -1 ELSE IF Len(x) > Len(y) THEN 1 ELSE P_LexCmp(x, y)
\* split on a set of separator code points
P_SplitOn(s, seps) ==
  LET idx == {q \in 1..Len(s) : s[q] \in seps}
      RECURSIVE Go(_,_)
      Go(start, q) == IF q > Len(s) THEN << SubSeq(s, start, Len(s)) >>
                      ELSE IF q \in idx THEN << SubSeq(s, start, q-1) >> \o Go(q+1, q+1) ELSE Go(start, q+1)
  IN Go(1, 1)

\* ---------- PEP 440 grammar as a regex AST ----------
P_Digit  == Set(48..57)
P_Digits == Rep(P_Digit, 1, 0)
P_Sep    == Opt(Set({45, 95, 46}))                       \* [-_.]?
P_W(str) == Lit(str)
PreL   == Alt(<<P_W(<<97>>), P_W(<<98>>), P_W(<<99>>), P_W(<<114,99>>), P_W(<<97,108,112,104,97>>), P_W(<<98,101,116,97>>),
                P_W(<<112,114,101>>), P_W(<<112,114,101,118,105,101,119>>)>>)   \* a|b|c|rc|alpha|beta|pre|preview
PostL  == Alt(<<P_W(<<112,111,115,116>>), P_W(<<114,101,118>>), P_W(<<114>>)>>)  \* post|rev|r
P_AlNum  == Set((48..57) \cup (97..122))
PEP440 == Cat(<<
   Opt(Chr(118)),
   Opt(Cat(<<Grp("epoch", P_Digits), Chr(33)>>)),
   Grp("release", Cat(<<P_Digits, Rep(Cat(<<Chr(46), P_Digits>>), 0, 0)>>)),
   Opt(Grp("pre", Cat(<<P_Sep, Grp("pre_l", PreL), P_Sep, Opt(Grp("pre_n", P_Digits))>>))),
   Opt(Grp("post", Alt(<< Cat(<<Chr(45), Grp("post_n1", P_Digits)>>),
                          Cat(<<P_Sep, Grp("post_l", PostL), P_Sep, Opt(Grp("post_n2", P_Digits))>>) >>))),
   Opt(Grp("dev", Cat(<<P_Sep, Grp("dev_l", P_W(<<100,101,118>>)), P_Sep, Opt(Grp("dev_n", P_Digits))>>))),
   Opt(Cat(<<Chr(43), Grp("local", Cat(<<Rep(P_AlNum,1,0), Rep(Cat(<<Set({45,95,46}), Rep(P_AlNum,1,0)>>), 0, 0)>>))>>)),
   Eol >>)

P_Has(c, k) == k \in DOMAIN c
P_No == [has |-> FALSE]
P_Yes(x) == [has |-> TRUE, v |-> x]
NormLetter(l) == IF l = <<97,108,112,104,97>> THEN <<97>> ELSE IF l = <<98,101,116,97>> THEN <<98>>
                 ELSE IF l \in {<<99>>, <<112,114,101>>, <<112,114,101,118,105,101,119>>} THEN <<114,99>> ELSE l

ParseVer(text) ==
  LET t == P_Lower(P_Strip(text))
      m == Match(PEP440, t)
  IN IF ~m.ok THEN [pep |-> FALSE, text |-> text]
     ELSE LET c == m.caps IN
       [pep |-> TRUE,
        epoch   |-> IF P_Has(c, "epoch") THEN P_DropZeros(c.epoch) ELSE <<48>>,
        release |-> LET rs == P_SplitOn(c.release, {46}) IN [q \in 1..Len(rs) |-> P_DropZeros(rs[q])],
        pre     |-> IF P_Has(c, "pre_l") THEN P_Yes(<<NormLetter(c.pre_l), IF P_Has(c, "pre_n") THEN P_DropZeros(c.pre_n) ELSE <<48>> >>) ELSE P_No,
        post    |-> IF P_Has(c, "post_l") THEN P_Yes(IF P_Has(c, "post_n2") THEN P_DropZeros(c.post_n2) ELSE <<48>>)
                    ELSE IF P_Has(c, "post_n1") THEN P_Yes(P_DropZeros(c.post_n1)) ELSE P_No,
        dev     |-> IF P_Has(c, "dev_l") THEN P_Yes(IF P_Has(c, "dev_n") THEN P_DropZeros(c.dev_n) ELSE <<48>>) ELSE P_No,
        local   |-> IF P_Has(c, "local") THEN P_Yes(P_SplitOn(c.local, {45,95,46})) ELSE P_No]

\* ---------- comparison of PEP 440 records ----------
RECURSIVE StripTrailZero(_)
StripTrailZero(r) == IF Len(r) > 0 /\ r[Len(r)] = <<48>> THEN StripTrailZero(SubSeq(r,1,Len(r)-1)) ELSE r
RECURSIVE RelCmp(_,_)
RelCmp(a, b) == IF a = <<>> /\ b = <<>> THEN 0 ELSE IF a = <<>> THEN -1 ELSE IF b = <<>> THEN 1
                ELSE LET c == P_NatCmp(a[1], b[1]) IN IF c # 0 THEN c ELSE RelCmp(Tail(a), Tail(b))
\* pre key: -inf (dev only) < (letter,n) < +inf (no pre)
PreRank(v) == IF ~v.pre.has /\ ~v.post.has /\ v.dev.has THEN 0 ELSE IF ~v.pre.has THEN 2 ELSE 1
PreCmp(a, b) == IF PreRank(a) # PreRank(b) THEN (IF PreRank(a) < PreRank(b) THEN -1 ELSE 1)
                ELSE IF PreRank(a) # 1 THEN 0
                ELSE LET c == P_LexCmp(a.pre.v[1], b.pre.v[1]) IN IF c # 0 THEN c ELSE P_NatCmp(a.pre.v[2], b.pre.v[2])
PostCmp(a, b) == IF ~a.post.has /\ ~b.post.has THEN 0 ELSE IF ~a.post.has THEN -1 ELSE IF ~b.post.has THEN 1 ELSE P_NatCmp(a.post.v, b.post.v)
DevCmp(a, b)  == IF ~a.dev.has /\ ~b.dev.has THEN 0 ELSE IF ~a.dev.has THEN 1 ELSE IF ~b.dev.has THEN -1 ELSE P_NatCmp(a.dev.v, b.dev.v)
P_IsNum(p) == p # <<>> /\ \A q \in 1..Len(p) : P_IsDigit(p[q])
SegCmp(x, y) == IF P_IsNum(x) /\ P_IsNum(y) THEN P_NatCmp(x, y) ELSE IF P_IsNum(x) THEN 1 ELSE IF P_IsNum(y) THEN -1 ELSE P_LexCmp(x, y)
RECURSIVE LocSeqCmp(_,_)
LocSeqCmp(a, b) == IF a = <<>> /\ b = <<>> THEN 0 ELSE IF a = <<>> THEN -1 ELSE IF b = <<>> THEN 1
                   ELSE LET c == SegCmp(a[1], b[1]) IN IF c # 0 THEN c ELSE LocSeqCmp(Tail(a), Tail(b))
LocalCmp(a, b) == IF ~a.local.has /\ ~b.local.has THEN 0 ELSE IF ~a.local.has THEN -1 ELSE IF ~b.local.has THEN 1 ELSE LocSeqCmp(a.local.v, b.local.v)
P_First(cs) == IF cs[1] # 0 THEN cs[1] ELSE IF cs[2] # 0 THEN cs[2] ELSE IF cs[3] # 0 THEN cs[3] ELSE IF cs[4] # 0 THEN cs[4] ELSE IF cs[5] # 0 THEN cs[5] ELSE cs[6]
PepCmp(a, b) == P_First(<< P_NatCmp(a.epoch, b.epoch), RelCmp(StripTrailZero(a.release), StripTrailZero(b.release)),
                         PreCmp(a, b), PostCmp(a, b), DevCmp(a, b), LocalCmp(a, b) >>)

\* ---------- legacy (pkg_resources) key ----------
P_Kind(c) == IF P_IsDigit(c) THEN 1 ELSE IF P_IsLowerAZ(c) THEN 2 ELSE IF c = 46 THEN 3 ELSE IF c = 45 THEN 4 ELSE 5
\* tokens: maximal digit runs, maximal a-z runs, single '.' and '-', maximal runs of anything else
P_Tokens(s) ==
  LET RECURSIVE Go(_,_)
      Go(start, q) ==
        IF start > Len(s) THEN <<>>
        ELSE IF q <= Len(s) /\ P_Kind(s[q]) = P_Kind(s[start]) /\ P_Kind(s[start]) \in {1,2,5} THEN Go(start, q+1)
        ELSE LET e == IF q = start THEN start ELSE q - 1 IN << SubSeq(s, start, e) >> \o Go(e+1, e+2)
  IN Go(1, 2)
P_Star == 42
P_FINAL == <<42,102,105,110,97,108>>        \* "*final"
P_FINALDASH == <<42,102,105,110,97,108,45>> \* "*final-"
P_ZFill8(d) == IF Len(d) >= 8 THEN d ELSE [q \in 1..(8 - Len(d)) |-> 48] \o d
P_ZERO8 == [q \in 1..8 |-> 48]
P_MapTok(t) == IF t = <<112,114,101>> \/ t = <<112,114,101,118,105,101,119>> \/ t = <<114,99>> THEN <<99>>
             ELSE IF t = <<45>> THEN <<102,105,110,97,108,45>>
             ELSE IF t = <<100,101,118>> THEN <<64>> ELSE t
\* parts yielded by _parse_version_parts
P_Parts(s) == LET ts == P_Tokens(s)
                ms == [q \in 1..Len(ts) |-> P_MapTok(ts[q])]
                keep == SelectSeq(ms, LAMBDA t : t # <<>> /\ t # <<46>>)
            IN [q \in 1..Len(keep) |-> IF P_IsDigit(keep[q][1]) THEN P_ZFill8(keep[q]) ELSE <<P_Star>> \o keep[q]] \o <<P_FINAL>>
RECURSIVE P_PopWhile(_,_)
P_PopWhile(ps, x) == IF ps # <<>> /\ ps[Len(ps)] = x THEN P_PopWhile(SubSeq(ps,1,Len(ps)-1), x) ELSE ps
RECURSIVE P_Fold(_,_,_)
P_Fold(ps, q, acc) == IF q > Len(ps) THEN acc
                    ELSE LET p == ps[q]
                             a1 == IF p[1] = P_Star THEN P_PopWhile(IF P_LexCmp(p, P_FINAL) < 0 THEN P_PopWhile(acc, P_FINALDASH) ELSE acc, P_ZERO8) ELSE acc
                         IN P_Fold(ps, q+1, Append(a1, p))
LegacyKey(text) == P_Fold(P_Parts(P_Lower(text)), 1, <<>>)
RECURSIVE KeyCmp(_,_)
KeyCmp(a, b) == IF a = <<>> /\ b = <<>> THEN 0 ELSE IF a = <<>> THEN -1 ELSE IF b = <<>> THEN 1
                ELSE LET c == P_LexCmp(a[1], b[1]) IN IF c # 0 THEN c ELSE KeyCmp(Tail(a), Tail(b))

VerCmp(x, y) == LET a == ParseVer(x) b == ParseVer(y) IN
   IF a.pep /\ b.pep THEN PepCmp(a, b) ELSE IF a.pep THEN 1 ELSE IF b.pep THEN -1 ELSE KeyCmp(LegacyKey(x), LegacyKey(y))

\* ---------- canonical form ----------
P_Join(parts, sep) == LET RECURSIVE J(_) J(q) == IF q > Len(parts) THEN <<>> ELSE (IF q > 1 THEN sep ELSE <<>>) \o parts[q] \o J(q+1) IN J(1)
Canon(text) == LET a == ParseVer(text) IN IF ~a.pep THEN text ELSE
   (IF a.epoch # <<48>> THEN a.epoch \o <<33>> ELSE <<>>) \o P_Join(a.release, <<46>>)
   \o (IF a.pre.has THEN a.pre.v[1] \o a.pre.v[2] ELSE <<>>)
   \o (IF a.post.has THEN <<46,112,111,115,116>> \o a.post.v ELSE <<>>)
   \o (IF a.dev.has THEN <<46,100,101,118>> \o a.dev.v ELSE <<>>)
   \o (IF a.local.has THEN <<43>> \o P_Join([q \in 1..Len(a.local.v) |-> IF P_IsNum(a.local.v[q]) THEN P_DropZeros(a.local.v[q]) ELSE a.local.v[q]], <<46>>) ELSE <<>>)

====
