---- MODULE MC10 ----
EXTENDS Naturals, Sequences, FiniteSets, TLC

\* ---------- configuration lattice ----------
Tri == {"unset", "yes", "no"}
Hook == {"absent", "ok", "fail"}
CfgTriples == {<<c, t, p>> \in BOOLEAN \X BOOLEAN \X BOOLEAN : (t \/ p) => c}     \* what the config loader accepts
Steps == <<"fetch", "lstags", "status", "write", "prehook", "add", "commit", "posthook", "tag", "push">>
Failable == {"none", "lstags", "status", "add", "commit", "tag", "push", "fetch"}

VARIABLES conf,     \* the chosen configuration (record), or a partial one while it is being chosen
          lvl,      \* generation layer
          pc, log, exit, filesChanged
vars == <<conf, lvl, pc, log, exit, filesChanged>>

Init == /\ conf = [vcs |-> "git"]
        /\ lvl = 0 /\ pc = "choose" /\ log = <<>> /\ exit = 0 /\ filesChanged = FALSE

\* layered choice of the configuration (initial states are computed on one thread)
Choose ==
  /\ pc = "choose"
  /\ \/ lvl = 0 /\ \E v \in {"git", "hg"}, tr \in CfgTriples : conf' = [vcs |-> v, cfg |-> tr] /\ lvl' = 1
     \/ lvl = 1 /\ \E a \in Tri, b \in Tri, c \in Tri : conf' = conf @@ [fcommit |-> a, ftag |-> b, fpush |-> c] /\ lvl' = 2
     \/ lvl = 2 /\ \E pre \in Hook, post \in Hook, src \in {"config", "cli"} : conf' = conf @@ [pre |-> pre, post |-> post, hooksrc |-> src] /\ lvl' = 3
     \/ lvl = 3 /\ \E dirty \in BOOLEAN, allow \in BOOLEAN, tagmsg \in BOOLEAN, remote \in BOOLEAN, dry \in BOOLEAN, fetch \in BOOLEAN :
                     conf' = conf @@ [dirty |-> dirty, allow |-> allow, tagmsg |-> tagmsg, remote |-> remote, dry |-> dry, fetch |-> fetch] /\ lvl' = 4
     \/ lvl = 4 /\ \E f \in Failable : conf' = conf @@ [failat |-> f] /\ lvl' = 5
  /\ pc' = IF lvl' = 5 THEN "merge" ELSE "choose"
  /\ UNCHANGED <<log, exit, filesChanged>>

\* merged settings
Flag(tri, dflt) == IF tri = "unset" THEN dflt ELSE tri = "yes"
MCommit == Flag(conf.fcommit, conf.cfg[1])
MTag    == Flag(conf.ftag, conf.cfg[2])
MPush   == Flag(conf.fpush, conf.cfg[3])
Contradiction == \/ conf.fcommit = "no" /\ (conf.ftag = "yes" \/ conf.fpush = "yes")
                 \/ ~MCommit /\ (conf.ftag = "yes" \/ conf.fpush = "yes")

Goto(p) == pc' = p /\ UNCHANGED <<conf, lvl>>
Emit(name) == log' = Append(log, name)
Fail == exit' = 1 /\ pc' = "done" /\ UNCHANGED <<conf, lvl>>
Fails(name) == conf.failat = name

Merge == pc = "merge" /\ (IF Contradiction THEN Fail /\ UNCHANGED <<log, filesChanged>> ELSE Goto("fetch") /\ UNCHANGED <<log, exit, filesChanged>>)
Fetch == pc = "fetch" /\ IF conf.fetch /\ conf.remote
                         THEN Emit("fetch") /\ UNCHANGED filesChanged /\ (IF Fails("fetch") THEN Fail ELSE Goto("lstags") /\ UNCHANGED exit)
                         ELSE Goto("lstags") /\ UNCHANGED <<log, exit, filesChanged>>
LsTags == pc = "lstags" /\ Emit("lstags") /\ UNCHANGED filesChanged /\ (IF Fails("lstags") THEN Fail ELSE Goto("gate") /\ UNCHANGED exit)
Gate == pc = "gate" /\ UNCHANGED <<log, exit, filesChanged>> /\ Goto(IF conf.dry THEN "done" ELSE IF MCommit THEN "status" ELSE "write")
Status == pc = "status" /\ Emit("status") /\ UNCHANGED filesChanged
          /\ (IF Fails("status") \/ (conf.dirty /\ ~conf.allow) THEN Fail ELSE Goto("write") /\ UNCHANGED exit)
Write == pc = "write" /\ filesChanged' = TRUE /\ UNCHANGED <<log, exit>> /\ Goto(IF MCommit THEN "prehook" ELSE "done")
PreHook == pc = "prehook" /\ UNCHANGED filesChanged /\
           (IF conf.pre = "absent" THEN Goto("add") /\ UNCHANGED <<log, exit>>
            ELSE Emit("prehook") /\ (IF conf.pre = "fail" THEN Fail ELSE Goto("add") /\ UNCHANGED exit))
Add == pc = "add" /\ Emit("add") /\ UNCHANGED filesChanged /\ (IF Fails("add") THEN Fail ELSE Goto("commit") /\ UNCHANGED exit)
Commit == pc = "commit" /\ Emit("commit") /\ UNCHANGED filesChanged /\ (IF Fails("commit") THEN Fail ELSE Goto("posthook") /\ UNCHANGED exit)
PostHook == pc = "posthook" /\ UNCHANGED filesChanged /\
           (IF conf.post = "absent" THEN Goto("tag") /\ UNCHANGED <<log, exit>>
            ELSE Emit("posthook") /\ (IF conf.post = "fail" THEN Fail ELSE Goto("tag") /\ UNCHANGED exit))
Tag == pc = "tag" /\ UNCHANGED filesChanged /\
       (IF ~MTag THEN Goto("push") /\ UNCHANGED <<log, exit>>
        ELSE Emit(IF conf.tagmsg THEN "tag" ELSE "tag_light") /\ (IF Fails("tag") THEN Fail ELSE Goto("push") /\ UNCHANGED exit))
Push == pc = "push" /\ UNCHANGED filesChanged /\
       (IF ~MPush \/ ~conf.remote THEN Goto("done") /\ UNCHANGED <<log, exit>>
        ELSE Emit(IF MTag THEN "push_tag" ELSE "push") /\ (IF Fails("push") THEN Fail ELSE Goto("done") /\ UNCHANGED exit))
Next == Choose \/ Merge \/ Fetch \/ LsTags \/ Gate \/ Status \/ Write \/ PreHook \/ Add \/ Commit \/ PostHook \/ Tag \/ Push
Spec == Init /\ [][Next]_vars

\* ---------- the property, independent of the pipeline ----------
Idx(name) == CHOOSE i \in 1..Len(log) : log[i] = name
In(name) == \E i \in 1..Len(log) : log[i] = name
Before(a, b) == In(a) /\ In(b) => Idx(a) < Idx(b)
Mutating == {"add", "commit", "tag", "tag_light", "push", "push_tag"}
Order == <<"status", "prehook", "add", "commit", "posthook", "tag", "tag_light", "push", "push_tag">>
Ordered == \A i, j \in 1..Len(Order) : i < j => Before(Order[i], Order[j])
NoCommitNoTagPush == (\E n \in {"tag","tag_light","push","push_tag","posthook"} : In(n)) => In("commit")
NoFetch == ~conf.fetch => ~In("fetch")
DryInert == conf.dry => ~filesChanged /\ ~\E n \in Mutating \cup {"prehook","posthook","status"} : In(n)
RejectFirst == lvl = 5 /\ Contradiction /\ pc = "done" => log = <<>> /\ ~filesChanged /\ exit = 1
OnlyIfEnabled == /\ (In("commit") => MCommit) /\ (In("tag") \/ In("tag_light") => MTag /\ MCommit) /\ (In("push") \/ In("push_tag") => MPush /\ MCommit /\ conf.remote)
                 /\ (In("prehook") => conf.pre # "absent" /\ MCommit) /\ (In("posthook") => conf.post # "absent")
StopAtFailure == (In("prehook") /\ conf.pre = "fail" => ~In("add")) /\ (In("posthook") /\ conf.post = "fail" => ~In("tag") /\ ~In("tag_light") /\ ~In("push") /\ ~In("push_tag"))
                 /\ (lvl = 5 /\ conf.failat = "commit" /\ In("commit") => ~In("posthook") /\ ~In("tag") /\ ~In("push") /\ ~In("push_tag"))
Inv == lvl = 5 => Ordered /\ NoCommitNoTagPush /\ NoFetch /\ DryInert /\ RejectFirst /\ OnlyIfEnabled /\ StopAtFailure
View == <<conf, lvl, pc, exit, filesChanged, log>>
====
