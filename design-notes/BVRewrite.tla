---- MODULE BVRewrite ----
EXTENDS BVVersion, Json, IOUtils

CR == 13
LF == 10
HasCRLF(t) == \E q \in 1..(Len(t)-1) : t[q] = CR /\ t[q+1] = LF
HasCR(t)   == \E q \in 1..Len(t) : t[q] = CR
LineSep(t) == IF HasCRLF(t) THEN <<CR, LF>> ELSE IF HasCR(t) THEN <<CR>> ELSE <<LF>>

\* positions where sep starts, scanning left to right without overlap
SepStarts(t, sep) ==
  LET n == Len(sep)
      At(q) == q + n - 1 <= Len(t) /\ SubSeq(t, q, q + n - 1) = sep
      RECURSIVE Go(_)
      Go(q) == IF q > Len(t) THEN <<>> ELSE IF At(q) THEN <<q>> \o Go(q + n) ELSE Go(q + 1)
  IN Go(1)
SplitBy(t, sep) ==
  LET st == SepStarts(t, sep) n == Len(sep)
      From(k) == IF k = 1 THEN 1 ELSE st[k-1] + n
      To(k) == IF k > Len(st) THEN Len(t) ELSE st[k] - 1
  IN [k \in 1..(Len(st) + 1) |-> SubSeq(t, From(k), To(k))]
JoinBy(ls, sep) == LET RECURSIVE J(_) J(q) == IF q > Len(ls) THEN <<>> ELSE (IF q > 1 THEN sep ELSE <<>>) \o ls[q] \o J(q+1) IN J(1)

\* leftmost match of a compiled pattern in a line (re.search)
RECURSIVE SearchFrom(_,_,_)
SearchFrom(rx, s, i) == IF i > Len(s) + 1 THEN [ok |-> FALSE]
                        ELSE LET rs == Ends(rx, s, i, <<>>) IN
                             IF rs # <<>> THEN [ok |-> TRUE, start |-> i, end |-> rs[1][1]] ELSE SearchFrom(rx, s, i + 1)
Search(rx, s) == SearchFrom(rx, s, 1)

\* candidates in the order the code visits them: pattern by pattern, line by line
Candidates(lines, pats) ==
  LET rxs == [k \in 1..Len(pats) |-> Compile(pats[k])]
      one(k, i) == LET m == Search(rxs[k], lines[i]) IN
                   IF m.ok /\ m.end > m.start THEN << [pat |-> k, line |-> i, start |-> m.start - 1, end |-> m.end - 1] >> ELSE <<>>
      RECURSIVE Lines(_,_), Pats(_)
      Lines(k, i) == IF i > Len(lines) THEN <<>> ELSE one(k, i) \o Lines(k, i + 1)
      Pats(k) == IF k > Len(pats) THEN <<>> ELSE Lines(k, 1) \o Pats(k + 1)
  IN Pats(1)
\* a candidate is dropped if it touches or overlaps any EARLIER candidate on its line (dropped ones included)
Overlaps(a, b) == a.line = b.line /\ a.start <= b.end /\ a.end >= b.start
Kept(cs) == SelectSeq([q \in 1..Len(cs) |-> [c |-> cs[q], keep |-> ~\E r \in 1..(q-1) : Overlaps(cs[q], cs[r])]], LAMBDA x : x.keep)

\* replacement of all kept spans of one line, right to left (spans of kept matches never overlap)
ReplaceLine(line, ms, texts) ==   \* ms: kept matches of this line, any order
  LET RECURSIVE Go(_,_)
      Go(l, rest) == IF rest = {} THEN l
                     ELSE LET m == CHOOSE x \in rest : \A y \in rest : x.start >= y.start
                          IN Go(SubSeq(l, 1, m.start) \o texts[m.pat] \o SubSeq(l, m.end + 1, Len(l)), rest \ {m})
  IN Go(line, ms)
\* the current code builds each replacement from the OLD line: the last kept match of a line wins (S2)
ReplaceLineLastWins(line, mseq, texts) ==
  IF mseq = <<>> THEN line ELSE LET m == mseq[Len(mseq)] IN SubSeq(line, 1, m.start) \o texts[m.pat] \o SubSeq(line, m.end + 1, Len(line))

Rewrite(text, pats, v, lastWins) ==
  LET sep == LineSep(text) lines == SplitBy(text, sep)
      kept == Kept(Candidates(lines, pats))
      found == {kept[q].c.pat : q \in 1..Len(kept)}
      texts == [k \in 1..Len(pats) |-> Render(v, pats[k])]
      ofLine(i) == SelectSeq([q \in 1..Len(kept) |-> kept[q].c], LAMBDA c : c.line = i)
      newLines == [i \in 1..Len(lines) |-> IF lastWins THEN ReplaceLineLastWins(lines[i], ofLine(i), texts)
                                            ELSE ReplaceLine(lines[i], {ofLine(i)[q] : q \in 1..Len(ofLine(i))}, texts)]
  IN IF found # 1..Len(pats) THEN [ok |-> FALSE, missing |-> (1..Len(pats)) \ found]
     ELSE [ok |-> TRUE, text |-> JoinBy(newLines, sep), nmatch |-> Len(kept)]

Trace == ndJsonDeserialize(IOEnv.TRACE_FILE)
VARIABLE l
Init == l = 1
Verdict(e) == LET r == Rewrite(e.old, e.pats, e.v, FALSE) r2 == Rewrite(e.old, e.pats, e.v, TRUE) IN
   IF ~e.ok THEN (IF ~r.ok THEN <<"ok">> ELSE <<"code-failed-spec-ok">>)
   ELSE IF ~r.ok THEN <<"spec-failed-code-ok", r.missing>>
   ELSE IF r.text = e.new THEN <<"ok">>
   ELSE IF r2.ok /\ r2.text = e.new THEN <<"S2-last-wins">> ELSE <<"differs", r.text>>
Next == l <= Len(Trace) /\ l' = l + 1 /\ LET v == Verdict(Trace[l]) IN v = <<"ok">> \/ PrintT(<<"FAIL", Trace[l].id, v[1], Trace[l].dbg>>)
Post == TLCGet("stats").diameter - 1 = Len(Trace)
====
