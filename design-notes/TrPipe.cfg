INIT TrInit
NEXT TrNext
CONSTRAINT Reach
INVARIANT OrderInv
POSTCONDITION Accepted
CHECK_DEADLOCK FALSE
