---- MODULE BVVersion ----
EXTENDS BVRegex, BVText, BVCalendar, BVLexId

\* ================= parts (README "Part Overview") =================
D(a, b) == Set(a..b)            \* code point class
Dg == D(48,57)
C(c) == Chr(c)
Alts(xs) == Alt(xs)
Wd(cs) == Lit(cs)
TagWords == [final |-> <<102,105,110,97,108>>, dev |-> <<100,101,118>>, alpha |-> <<97,108,112,104,97>>,
             beta |-> <<98,101,116,97>>, post |-> <<112,111,115,116>>, rc |-> <<114,99>>]
PyTagWords == [dev |-> <<100,101,118>>, post |-> <<112,111,115,116>>, rc |-> <<114,99>>, a |-> <<97>>, b |-> <<98>>]
PyTagOfTag == [final |-> "", dev |-> "dev", alpha |-> "a", beta |-> "b", post |-> "post", rc |-> "rc"]
TagOfPyTag(p) == CASE p = "a" -> "alpha" [] p = "b" -> "beta" [] p = "" -> "final" [] OTHER -> p
WordToName(w, table) == CHOOSE k \in DOMAIN table : table[k] = w

PartField(p) ==
  CASE p \in {"YYYY","YY","0Y"} -> "year_y" [] p \in {"GGGG","GG","0G"} -> "year_g" [] p = "Q" -> "quarter"
    [] p \in {"MM","0M"} -> "month" [] p \in {"DD","0D"} -> "dom" [] p \in {"JJJ","00J"} -> "doy"
    [] p \in {"WW","0W"} -> "week_w" [] p \in {"UU","0U"} -> "week_u" [] p \in {"VV","0V"} -> "week_v"
    [] p = "MAJOR" -> "major" [] p = "MINOR" -> "minor" [] p = "PATCH" -> "patch"
    [] p \in {"BUILD","BLD"} -> "bid" [] p = "TAG" -> "tag" [] p = "PYTAG" -> "pytag"
    [] p = "NUM" -> "num" [] p = "INC0" -> "inc0" [] p = "INC1" -> "inc1"

\* recogniser of each part, longest numeral first
PartRx(p) ==
  CASE p \in {"YYYY","GGGG"} -> Cat(<<D(49,57), Rep(Dg,3,3)>>)
    [] p \in {"YY","GG"}     -> Cat(<<D(49,57), Opt(Dg)>>)
    [] p \in {"0Y","0G"}     -> Rep(Dg,2,2)
    [] p = "Q"               -> D(49,52)
    [] p = "MM"              -> Alts(<<Cat(<<C(49), D(48,50)>>), D(49,57)>>)
    [] p = "0M"              -> Alts(<<Cat(<<C(49), D(48,50)>>), Cat(<<C(48), D(49,57)>>)>>)
    [] p = "DD"              -> Alts(<<Cat(<<C(51), D(48,49)>>), Cat(<<D(49,50), Dg>>), D(49,57)>>)
    [] p = "0D"              -> Alts(<<Cat(<<C(51), D(48,49)>>), Cat(<<D(49,50), Dg>>), Cat(<<C(48), D(49,57)>>)>>)
    [] p = "JJJ"             -> Alts(<<Cat(<<C(51),C(54),D(48,54)>>), Cat(<<C(51),D(48,53),Dg>>), Cat(<<D(49,50),Dg,Dg>>), Cat(<<D(49,57),Dg>>), D(49,57)>>)
    [] p = "00J"             -> Alts(<<Cat(<<C(51),C(54),D(48,54)>>), Cat(<<C(51),D(48,53),Dg>>), Cat(<<D(49,50),Dg,Dg>>), Cat(<<C(48),D(49,57),Dg>>), Cat(<<C(48),C(48),D(49,57)>>)>>)
    [] p \in {"WW","UU"}     -> Alts(<<Cat(<<C(53), D(48,50)>>), Cat(<<D(49,52), Dg>>), Dg>>)
    [] p \in {"0W","0U"}     -> Alts(<<Cat(<<C(53), D(48,50)>>), Cat(<<D(48,52), Dg>>)>>)
    [] p = "VV"              -> Alts(<<Cat(<<C(53), D(48,51)>>), Cat(<<D(49,52), Dg>>), D(49,57)>>)
    [] p = "0V"              -> Alts(<<Cat(<<C(53), D(48,51)>>), Cat(<<D(49,52), Dg>>), Cat(<<C(48), D(49,57)>>)>>)
    [] p \in {"MAJOR","MINOR","PATCH","BUILD","NUM","INC0"} -> Rep(Dg,1,0)
    [] p \in {"BLD","INC1"}  -> Cat(<<D(49,57), Rep(Dg,0,0)>>)
    [] p = "TAG"             -> Alts(<<Wd(TagWords.final), Wd(TagWords.dev), Wd(TagWords.alpha), Wd(TagWords.beta), Wd(TagWords.post), Wd(TagWords.rc)>>)
    [] p = "PYTAG"           -> Alts(<<Wd(PyTagWords.dev), Wd(PyTagWords.post), Wd(PyTagWords.rc), Wd(PyTagWords.a), Wd(PyTagWords.b)>>)

Last2(n) == n % 100
\* formatter of each part on a version state
Fmt(p, v) ==
  CASE p = "YYYY" -> DigitsOf(v.year_y) [] p = "YY" -> DigitsOf(Last2(v.year_y)) [] p = "0Y" -> Pad(DigitsOf(Last2(v.year_y)), 2)
    [] p = "GGGG" -> DigitsOf(v.year_g) [] p = "GG" -> DigitsOf(Last2(v.year_g)) [] p = "0G" -> Pad(DigitsOf(Last2(v.year_g)), 2)
    [] p = "Q" -> DigitsOf(v.quarter)
    [] p = "MM" -> DigitsOf(v.month) [] p = "0M" -> Pad(DigitsOf(v.month), 2)
    [] p = "DD" -> DigitsOf(v.dom)   [] p = "0D" -> Pad(DigitsOf(v.dom), 2)
    [] p = "JJJ" -> DigitsOf(v.doy)  [] p = "00J" -> Pad(DigitsOf(v.doy), 3)
    [] p = "WW" -> DigitsOf(v.week_w) [] p = "0W" -> Pad(DigitsOf(v.week_w), 2)
    [] p = "UU" -> DigitsOf(v.week_u) [] p = "0U" -> Pad(DigitsOf(v.week_u), 2)
    [] p = "VV" -> DigitsOf(v.week_v) [] p = "0V" -> Pad(DigitsOf(v.week_v), 2)
    [] p = "MAJOR" -> DigitsOf(v.major) [] p = "MINOR" -> DigitsOf(v.minor) [] p = "PATCH" -> DigitsOf(v.patch)
    [] p = "BUILD" -> v.bid [] p = "BLD" -> DropZeros(v.bid)
    [] p = "TAG" -> TagWords[v.tag] [] p = "PYTAG" -> (IF v.pytag = "" THEN <<>> ELSE PyTagWords[v.pytag])
    [] p = "NUM" -> DigitsOf(v.num) [] p = "INC0" -> DigitsOf(v.inc0) [] p = "INC1" -> DigitsOf(v.inc1)

\* a part is "zero" (its optional group may be dropped) iff ...
IsZero(p, v) == CASE p = "MAJOR" -> v.major = 0 [] p = "MINOR" -> v.minor = 0 [] p = "PATCH" -> v.patch = 0
                  [] p = "TAG" -> v.tag = "final" [] p = "PYTAG" -> v.pytag = "" [] p = "NUM" -> v.num = 0
                  [] p = "INC0" -> v.inc0 = 0 [] OTHER -> FALSE

\* ================= patterns =================
\* node ::= [t |-> "lit", s |-> text] | [t |-> "part", p |-> NAME] | [t |-> "opt", body |-> <<node...>>]
RECURSIVE CompileSeq(_), PartsIn(_), RenderSeq(_,_), AllZero(_,_)
CompileNode(n) == CASE n.t = "lit" -> Lit(n.s)
                    [] n.t = "bol" -> Bol [] n.t = "eol" -> Eol
                    [] n.t = "part" -> Grp(PartField(n.p), PartRx(n.p))
                    [] n.t = "opt" -> Opt(CompileSeq(n.body))
CompileSeq(ns) == Cat([q \in 1..Len(ns) |-> CompileNode(ns[q])])
Compile(P) == CompileSeq(P)

\* parts of a pattern in left-to-right order (descending into groups)
PartsIn(ns) == IF ns = <<>> THEN <<>>
               ELSE (CASE ns[1].t = "part" -> <<ns[1].p>> [] ns[1].t = "opt" -> PartsIn(ns[1].body) [] OTHER -> <<>>) \o PartsIn(Tail(ns))
FieldOrder(P) == LET ps == PartsIn(P) IN [q \in 1..Len(ps) |-> PartField(ps[q])]
HasPart(P, names) == \E q \in 1..Len(PartsIn(P)) : PartsIn(P)[q] \in names

\* rendering: a group (and the root) is dropped iff it contains a part and all parts in it (recursively) are zero
AllZero(ns, v) == LET ps == PartsIn(ns) IN ps # <<>> /\ \A q \in 1..Len(ps) : IsZero(ps[q], v)
RenderNode(n, v) == CASE n.t = "lit" -> n.s [] n.t = "part" -> Fmt(n.p, v) [] n.t \in {"bol","eol"} -> <<>>
                      [] n.t = "opt" -> IF AllZero(n.body, v) \/ PartsIn(n.body) = <<>> THEN <<>> ELSE RenderSeq(n.body, v)
RenderSeq(ns, v) == IF ns = <<>> THEN <<>> ELSE RenderNode(ns[1], v) \o RenderSeq(Tail(ns), v)
Render(v, P) == IF AllZero(P, v) THEN <<>> ELSE RenderSeq(P, v)

\* ================= version state =================
NA == -1    \* calendar field not known
\* derive the state from the captured groups (texts), as the README describes reading a version
Cap(c, f) == IF f \in DOMAIN c THEN c[f] ELSE <<>>      \* <<>> : group absent (also optional group not taken)
Num(c, f, dflt) == IF Cap(c, f) = <<>> THEN dflt ELSE NatOf(Cap(c, f))
Year4(y) == IF y # NA /\ y < 1000 THEN y + 2000 ELSE y
StateOf(c, today) ==
  LET yy == Year4(Num(c, "year_y", NA))  yg == Year4(Num(c, "year_g", NA))
      doy0 == Num(c, "doy", NA) m0 == Num(c, "month", NA) d0 == Num(c, "dom", NA)
      ww == Num(c, "week_w", NA) wu == Num(c, "week_u", NA) wv == Num(c, "week_v", NA)
      fromDoy == yy # NA /\ yy # 0 /\ doy0 # NA /\ doy0 # 0
      md == IF fromDoy THEN LET n == DaysBeforeYear(yy) + doy0 IN <<CalInfo(n).month, CalInfo(n).dom>> ELSE <<m0, d0>>
      hasDate == yy # NA /\ yy # 0 /\ md[1] # NA /\ md[1] # 0 /\ md[2] # NA /\ md[2] # 0
      nothing == \A x \in {yy, yg, m0, d0, doy0, ww, wu, wv} : x = NA \/ x = 0
      cal == IF hasDate THEN (IF ValidDate(yy, md[1], md[2]) THEN CalInfo(Ordinal(yy, md[1], md[2])) ELSE [bad |-> TRUE])
             ELSE IF nothing THEN CalInfo(today)
             ELSE [year_y |-> yy, year_g |-> yg, quarter |-> NA, month |-> md[1], dom |-> md[2], doy |-> doy0, week_w |-> ww, week_u |-> wu, week_v |-> wv]
      q0 == Num(c, "quarter", NA)
      tagw == Cap(c, "tag") ptagw == Cap(c, "pytag")
      tag0 == IF tagw # <<>> THEN WordToName(tagw, TagWords) ELSE IF ptagw # <<>> THEN TagOfPyTag(WordToName(ptagw, PyTagWords)) ELSE "final"
      pytag0 == IF ptagw # <<>> THEN WordToName(ptagw, PyTagWords) ELSE PyTagOfTag[tag0]
  IN IF "bad" \in DOMAIN cal THEN [bad |-> TRUE] ELSE
     [year_y |-> cal.year_y, year_g |-> cal.year_g,
      quarter |-> IF q0 # NA THEN q0 ELSE IF cal.month # NA /\ cal.month # 0 THEN Quarter(cal.month) ELSE NA,
      month |-> cal.month, dom |-> cal.dom, doy |-> cal.doy, week_w |-> cal.week_w, week_u |-> cal.week_u, week_v |-> cal.week_v,
      major |-> Num(c, "major", 0), minor |-> Num(c, "minor", 0), patch |-> Num(c, "patch", 0),
      bid |-> IF Cap(c, "bid") = <<>> THEN <<49,48,48,48>> ELSE Cap(c, "bid"),
      tag |-> tag0, pytag |-> pytag0,
      num |-> Num(c, "num", 0), inc0 |-> Num(c, "inc0", 0), inc1 |-> IF Num(c, "inc1", 0) = 0 THEN 1 ELSE Num(c, "inc1", 0)]

\* bumpver reads a version with re.match and demands that the FIRST match spans the text
ParseVersion(text, P, today) ==
  LET m == Match(Compile(P), text) IN
  IF ~m.ok THEN [bad |-> TRUE, why |-> "nomatch"]
  ELSE IF m.end # Len(text) + 1 THEN [bad |-> TRUE, why |-> "incomplete"]
  ELSE StateOf(m.caps, today)
IsBad(v) == "bad" \in DOMAIN v

\* ================= bumping =================
CoherentWeekPattern(P) ==
  LET yy == HasPart(P, {"YYYY","YY","0Y"}) ww == HasPart(P, {"WW","0W","UU","0U"})
      gg == HasPart(P, {"GGGG","GG","0G"}) vv == HasPart(P, {"VV","0V"})
  IN ~(yy /\ vv) /\ ~(gg /\ ww)

\* left > right on the calendar fields both know, in the fixed field order
RECURSIVE CalCmpFrom(_,_,_)
CalCmpFrom(l, r, q) == IF q > Len(CalFields) THEN 0
                       ELSE LET f == CalFields[q] IN
                            IF l[f] = NA \/ r[f] = NA THEN CalCmpFrom(l, r, q+1)
                            ELSE IF l[f] > r[f] THEN 1 ELSE IF l[f] < r[f] THEN -1 ELSE CalCmpFrom(l, r, q+1)
CalGt(l, r) == CalCmpFrom(l, r, 1) = 1
WithCal(v, cal) == [v EXCEPT !.year_y = cal.year_y, !.year_g = cal.year_g, !.quarter = cal.quarter, !.month = cal.month, !.dom = cal.dom,
                            !.doy = cal.doy, !.week_w = cal.week_w, !.week_u = cal.week_u, !.week_v = cal.week_v]
\* --pin-date: keep what the version knows, today's value otherwise   (S6: a known 0 counts as unknown in the code)
Keep(x, dflt, zeroIsUnknown) == IF x = NA \/ (zeroIsUnknown /\ x = 0) THEN dflt ELSE x
PinnedCal(v, today, z) == LET t == CalInfo(today) IN
  [f \in {"year_y","year_g","quarter","month","dom","doy","week_w","week_u","week_v"} |-> Keep(v[f], t[f], z)]

InitialValue == [major |-> 0, minor |-> 0, patch |-> 0, num |-> 0, inc0 |-> 0, inc1 |-> 1]
RECURSIVE FirstDiff(_,_,_,_)
FirstDiff(F, a, b, q) == IF q > Len(F) THEN 0 ELSE IF a[F[q]] # b[F[q]] THEN q ELSE FirstDiff(F, a, b, q+1)
ResetRight(P, old, cur) ==
  LET F == FieldOrder(P) k0 == FirstDiff(F, old, cur, 1)
      R == IF k0 = 0 THEN {} ELSE {F[q] : q \in (k0+1)..Len(F)} \cap DOMAIN InitialValue
  IN [f \in DOMAIN cur |-> IF f \in R THEN InitialValue[f] ELSE cur[f]]

Numeric(c0, f) ==
  LET c1 == [c0 EXCEPT !.major = @ + (IF f.major THEN 1 ELSE 0), !.minor = @ + (IF f.minor THEN 1 ELSE 0),
                       !.patch = @ + (IF f.patch THEN 1 ELSE 0), !.num = @ + (IF f.tag_num THEN 1 ELSE 0)]
      c2 == IF f.tag = "none" THEN c1
            ELSE [c1 EXCEPT !.num = IF f.tag # c1.tag THEN 0 ELSE @, !.tag = f.tag, !.pytag = PyTagOfTag[f.tag]]
      c3 == IF f.pin_increments THEN c2 ELSE [c2 EXCEPT !.inc0 = @ + 1, !.inc1 = @ + 1]
  IN [c3 EXCEPT !.bid = NextBuild(@)]

None == <<0>>   \* "no new version" (a text is a sequence of code points >= 1, so <<0>> is not a text)
Incr(oldtext, P, f, date, today, zeroIsUnknown) ==
  IF ~CoherentWeekPattern(P) THEN None ELSE
  LET v == ParseVersion(oldtext, P, today) IN
  IF IsBad(v) THEN None ELSE
  LET cal == IF f.pin_date THEN PinnedCal(v, today, zeroIsUnknown) ELSE CalInfo(date)
      c0  == IF CalGt(v, cal) THEN v ELSE WithCal(v, cal)
  IN IF f.tag_num /\ f.tag = "none" /\ c0.tag = "final" THEN None ELSE
  LET c2 == ResetRight(P, v, Numeric(c0, f))
      t  == Render(c2, P)
  IN IF t = <<>> \/ t = oldtext THEN None ELSE t
====
