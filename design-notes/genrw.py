import json, random, datetime as dt, sys
sys.path.insert(0, __import__('os').path.dirname(__import__('os').path.abspath(__file__)))
from gen import parse_pat, cp, state, TAGS
from bumpver import v2version, version, v2patterns, v2rewrite, rewrite
def parse_file_pat(s):
    pre=[]; post=[]
    if s.startswith("^"): pre=[{"t":"bol"}]; s=s[1:]
    if s.endswith("$"): post=[{"t":"eol"}]; s=s[:-1]
    return pre+parse_pat(s)+post
VPS=["vMAJOR.MINOR.PATCH[-TAG]","vYYYY0M.BUILD[-TAG]","MAJOR.MINOR.PATCH[PYTAGNUM]","YYYY.MM[.INC0]"]
RAWS=['ver={version}','pep={pep440_version}','Copyright (c) 2018-YYYY x','^__version__ = "{version}"$','badge/CalVer-{version}-blue','"{pep440_version}"',"release {version} ({pep440_version})"]
FILL=["lorem ipsum","# comment: (a|b)*","x = [1, 2]","","   ","naïve café ☃","tab\there","v1 2020 12","see 1.2 and 2020","ver=","pep= "]
def main(n, seed, path):
    rng=random.Random(seed); k=0
    with open(path,"w") as f:
        for i in range(n):
            vp=rng.choice(VPS)
            raws=rng.sample(RAWS, rng.randrange(1,4))
            if vp=="YYYY.MM[.INC0]": raws=[r for r in raws if "Copyright" not in r] or ['ver={version}']
            pats=v2patterns.compile_patterns(vp, raws)
            date=dt.date(rng.randrange(2019,2030), rng.randrange(1,13), rng.randrange(1,29))
            def rv():
                tag=rng.choice(TAGS); 
                return version.V2VersionInfo(**dict(v2version.cal_info(date)._asdict(), major=rng.choice([0,1,9,10]), minor=rng.choice([0,1,10]), patch=rng.choice([0,3,99]), bid=rng.choice(["1001","0099","22000"]), tag=tag, pytag=version.PEP440_TAG_BY_TAG[tag], githash="", hexhash="", num=0, inc0=rng.choice([0,1,9]), inc1=1))
            t_new=v2version.format_version(rv(), vp); t_old=v2version.format_version(rv(), vp)
            if not t_new or not t_old: continue
            new_v=v2version.parse_version_info(t_new, vp); old_v=v2version.parse_version_info(t_old, vp)
            lines=[]
            nl=rng.randrange(1,9)
            occ=[v2version.format_version(old_v, p.raw_pattern) for p in pats]   # raw_pattern field holds the normalized pattern
            places=[]
            for j,o in enumerate(occ):
                if rng.random()<.9: places.append(o)
            rng.shuffle(places)
            for j in range(nl): lines.append(rng.choice(FILL))
            for o in places:
                pos=rng.randrange(0,len(lines))
                mode=rng.random()
                if o.startswith("__version__") or mode<.5: lines.insert(pos,o)                 # own line
                elif mode<.8: lines[pos]=lines[pos]+" "+o+" "+rng.choice(["","tail","; x"])      # shared with filler / other occurrences
                else: lines[pos]=o+" "+lines[pos]
            sep=rng.choice(["\n","\n","\r\n","\r"])
            content=sep.join(lines)+(sep if rng.random()<.7 else "")
            if rng.random()<.1 and len(lines)>2: content=content.replace(sep,"\n",1) if sep!="\n" else content.replace("\n","\r\n",1)   # mixed
            try:
                rfd=v2rewrite.rfd_from_content(pats, new_v, content); ok=True; new=rfd.line_sep.join(rfd.new_lines)
            except rewrite.NoPatternMatch:
                ok=False; new=""
            k+=1
            f.write(json.dumps({"id":k,"old":cp(content),"pats":[parse_file_pat(p.raw_pattern) for p in pats],"v":state(new_v),"ok":ok,"new":cp(new),
                                "dbg":repr((vp,raws,content[:120]))})+"\n")
    print(k,"events")
main(int(sys.argv[1]), int(sys.argv[2]), sys.argv[3])
