---- MODULE ExportCases ----
EXTENDS Naturals, Sequences, TLC, Json
VARIABLES c, pc, log
Init == c \in [commit: BOOLEAN, tag: BOOLEAN, hook: {"absent","ok","fail"}] /\ pc = "start" /\ log = <<>>
Step == \/ pc = "start" /\ pc' = "hook" /\ UNCHANGED <<c, log>>
        \/ pc = "hook" /\ c.hook = "absent" /\ pc' = "commit" /\ UNCHANGED <<c,log>>
        \/ pc = "hook" /\ c.hook = "ok" /\ pc' = "commit" /\ log' = Append(log, "pre") /\ UNCHANGED c
        \/ pc = "hook" /\ c.hook = "fail" /\ pc' = "done" /\ log' = Append(log, "pre!") /\ UNCHANGED c
        \/ pc = "commit" /\ pc' = (IF c.tag THEN "tag" ELSE "done") /\ log' = IF c.commit THEN Append(log, "commit") ELSE log /\ UNCHANGED c
        \/ pc = "tag" /\ pc' = "done" /\ log' = IF c.commit THEN Append(log, "tag") ELSE log /\ UNCHANGED c
Export == pc = "done" => PrintT("CASE " \o ToJson([c |-> c, log |-> log]))
Spec == Init /\ [][Step]_<<c,pc,log>>
====
