---- MODULE TraceLex ----
EXTENDS BVLexId, Json, IOUtils, TLC
Trace == ndJsonDeserialize(IOEnv.TRACE_FILE)
VARIABLE l
Init == l = 1
IntLess(a, b) == NatCmp(a, b) < 0
LexLess(a, b) == LexCmp(a, b) < 0
Verdict(e) == LET n == NextBuild(e.a) IN
   IF n # e.b THEN <<"next", n>>
   ELSE IF ~IntLess(e.a, e.b) THEN <<"int">> ELSE IF ~Below1000(e.a) /\ Len(e.b) < Len(e.a) THEN <<"len">>
   ELSE IF Len(e.a) >= 4 /\ ~LexLess(e.a, e.b) THEN <<"lex">> ELSE <<"ok">>
Next == l <= Len(Trace) /\ l' = l + 1 /\ LET v == Verdict(Trace[l]) IN v = <<"ok">> \/ PrintT(<<"FAIL", Trace[l].a, Trace[l].b, v>>)
Post == TLCGet("stats").diameter - 1 = Len(Trace)
====
