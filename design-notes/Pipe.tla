---- MODULE Pipe ----
EXTENDS Naturals, Sequences, TLC
\* a cut-down update pipeline: enough to try the stateful trace idiom
VARIABLES pc, log, cfg
vars == <<pc, log, cfg>>
Cfgs == [commit: BOOLEAN, tag: BOOLEAN, push: BOOLEAN, pre: BOOLEAN, post: BOOLEAN]
Init == pc = "status" /\ log = <<>> /\ cfg \in {c \in Cfgs : (c.tag \/ c.push) => c.commit}
Step(from, to, name) == pc = from /\ pc' = to /\ log' = Append(log, name) /\ UNCHANGED cfg
Skip(from, to) == pc = from /\ pc' = to /\ UNCHANGED <<log, cfg>>
Status == Step("status", "pre", "status")
Pre    == (cfg.pre /\ Step("pre", "add", "prehook")) \/ (~cfg.pre /\ Skip("pre", "add"))
Add    == Step("add", "commit", "add")
Commit == Step("commit", "post", "commit")
Post   == (cfg.post /\ Step("post", "tag", "posthook")) \/ (~cfg.post /\ Skip("post", "tag"))
Tag    == (cfg.tag /\ Step("tag", "push", "tag")) \/ (~cfg.tag /\ Skip("tag", "push"))
Push   == (cfg.push /\ Step("push", "done", "push")) \/ (~cfg.push /\ Skip("push", "done"))
Next == Status \/ Pre \/ Add \/ Commit \/ Post \/ Tag \/ Push
====
