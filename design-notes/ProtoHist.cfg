SPECIFICATION Spec
INVARIANT Agreement
INVARIANT TagsUnique
CONSTRAINT Export
CHECK_DEADLOCK FALSE
