---- MODULE BVText ----
EXTENDS Integers, Sequences
IsDigit(c) == c \in 48..57
RECURSIVE DigitsOf(_)
DigitsOf(n) == IF n < 10 THEN <<48 + n>> ELSE DigitsOf(n \div 10) \o <<48 + (n % 10)>>
RECURSIVE NatOf(_)
NatOf(d) == IF d = <<>> THEN 0 ELSE NatOf(SubSeq(d, 1, Len(d)-1)) * 10 + (d[Len(d)] - 48)
Pad(d, w) == IF Len(d) >= w THEN d ELSE [q \in 1..(w - Len(d)) |-> 48] \o d
RECURSIVE DropZeros(_)
DropZeros(d) == IF Len(d) > 1 /\ d[1] = 48 THEN DropZeros(Tail(d)) ELSE d
RECURSIVE LexCmp(_,_)
LexCmp(a, b) == IF a = <<>> /\ b = <<>> THEN 0 ELSE IF a = <<>> THEN -1 ELSE IF b = <<>> THEN 1
                ELSE IF a[1] < b[1] THEN -1 ELSE IF a[1] > b[1] THEN 1 ELSE LexCmp(Tail(a), Tail(b))
NatCmp(a, b) == LET x == DropZeros(a) y == DropZeros(b) IN
                IF Len(x) < Len(y) THEN -1 ELSE IF Len(x) > Len(y) THEN 1 ELSE LexCmp(x, y)
RECURSIVE Flatten(_)
Flatten(ss) == IF ss = <<>> THEN <<>> ELSE ss[1] \o Flatten(Tail(ss))
====
