---- MODULE TrPipe ----
EXTENDS Pipe, Json, IOUtils
Trace == ndJsonDeserialize(IOEnv.TRACE_FILE)
VARIABLE l
IsEvent(name) == l <= Len(Trace) /\ Trace[l].ev = name /\ l' = l + 1
Logged(A, name) == IsEvent(name) /\ A /\ log' # log /\ log'[Len(log')] = name
Silent(A) == A /\ log' = log /\ l' = l
TrInit == Init /\ l = 1 /\ cfg = Trace[1].cfg
TrNext == \/ (IsEvent("cfg") /\ UNCHANGED vars)
          \/ Logged(Status, "status") \/ Logged(Pre, "prehook") \/ Logged(Add, "add") \/ Logged(Commit, "commit")
          \/ Logged(Post, "posthook") \/ Logged(Tag, "tag") \/ Logged(Push, "push")
          \/ Silent(Pre) \/ Silent(Post) \/ Silent(Tag) \/ Silent(Push)
Reach == TLCSet(1, IF TLCGet(1) > l THEN TLCGet(1) ELSE l)      \* CONSTRAINT: remember the furthest line
Accepted == TLCGet(1) = Len(Trace) + 1 \/ PrintT(<<"REJECTED at line", TLCGet(1), Trace[TLCGet(1)]>>)
OrderInv == \A i, j \in 1..Len(log) : (log[i] = "tag" /\ log[j] = "commit") => j < i
ASSUME TLCSet(1, 0)
====
