---- MODULE CalTrace ----
EXTENDS Integers, Sequences, TLC, Json, IOUtils

IsLeap(y) == (y % 4 = 0 /\ y % 100 # 0) \/ y % 400 = 0
DaysInYear(y) == IF IsLeap(y) THEN 366 ELSE 365
\* days before Jan 1 of year y, counting from 0001-01-01 = ordinal 1
DaysBeforeYear(y) == LET z == y - 1 IN z * 365 + z \div 4 - z \div 100 + z \div 400
DIM == <<31,28,31,30,31,30,31,31,30,31,30,31>>
DaysInMonth(y, m) == IF m = 2 /\ IsLeap(y) THEN 29 ELSE DIM[m]
RECURSIVE DaysBeforeMonth(_,_)
DaysBeforeMonth(y, m) == IF m = 1 THEN 0 ELSE DaysBeforeMonth(y, m-1) + DaysInMonth(y, m-1)
Ordinal(y, m, d) == DaysBeforeYear(y) + DaysBeforeMonth(y, m) + d
\* Monday = 0 ... Sunday = 6 ; ordinal 1 (0001-01-01) is a Monday
Weekday(n) == (n + 6) % 7
YearOf(n) == LET approx == (n - 1) \div 366 + 1   \* lower bound
                 RECURSIVE Up(_)
                 Up(y) == IF DaysBeforeYear(y + 1) < n THEN Up(y + 1) ELSE y
             IN Up(approx)
RECURSIVE MonthOf(_,_,_)
MonthOf(y, doy, m) == IF doy <= DaysInMonth(y, m) THEN <<m, doy>> ELSE MonthOf(y, doy - DaysInMonth(y, m), m + 1)
Doy(n) == n - DaysBeforeYear(YearOf(n))
\* strftime %W: week of year, Monday first, days before first Monday are week 0
WeekW(n) == (Doy(n) + 6 - Weekday(n)) \div 7
\* strftime %U: Sunday first;  wday with Sunday = 0
WeekU(n) == (Doy(n) + 6 - ((Weekday(n) + 1) % 7)) \div 7
\* ISO 8601: the week's Thursday decides the year
IsoThursday(n) == n - Weekday(n) + 3
IsoYear(n) == YearOf(IsoThursday(n))
IsoWeek(n) == (Doy(IsoThursday(n)) - 1) \div 7 + 1
CalInfo(n) == LET y == YearOf(n) md == MonthOf(y, Doy(n), 1) IN
  [year_y |-> y, year_g |-> IsoYear(n), quarter |-> (md[1] - 1) \div 3 + 1, month |-> md[1], dom |-> md[2],
   doy |-> Doy(n), week_w |-> WeekW(n), week_u |-> WeekU(n), week_v |-> IsoWeek(n)]

Trace == ndJsonDeserialize(IOEnv.TRACE_FILE)
VARIABLE l
Init == l = 1
Next == l <= Len(Trace) /\ l' = l + 1 /\
        LET e == Trace[l] c == CalInfo(e.n) IN
          (c.year_y = e.c[1] /\ c.year_g = e.c[2] /\ c.quarter = e.c[3] /\ c.month = e.c[4] /\ c.dom = e.c[5] /\ c.doy = e.c[6]
           /\ c.week_w = e.c[7] /\ c.week_u = e.c[8] /\ c.week_v = e.c[9] /\ Ordinal(c.year_y, c.month, c.dom) = e.n)
          \/ PrintT(<<"FAIL", e, c>>)
Post == TLCGet("stats").diameter - 1 = Len(Trace)
====
