import json, os, re, shutil, subprocess as sp, sys, tempfile, datetime as dt, logging
from click.testing import CliRunner
from bumpver import cli
ENV=dict(os.environ, GIT_AUTHOR_NAME="t", GIT_COMMITTER_NAME="t", GIT_AUTHOR_EMAIL="t@x", GIT_COMMITTER_EMAIL="t@x")
def sh(*a): return sp.check_output(a, env=ENV, stderr=sp.STDOUT).decode()
class Cap(logging.Handler):
    def __init__(s): super().__init__(); s.msgs=[]
    def emit(s, r): s.msgs.append(r.getMessage())
cap=Cap(); logging.getLogger().addHandler(cap); logging.getLogger().setLevel(logging.INFO)
txt=lambda cps: "".join(map(chr,cps))
hists=[]
for line in open(sys.argv[1]):
    line=line.strip()
    if line.startswith('"HIST '):
        h=json.loads(json.loads(line)[5:])
        if h not in hists: hists.append(h)
print(len(hists),"distinct behaviours")
CFG='''[bumpver]
current_version = "v1.2.3-beta"
version_pattern = "vMAJOR.MINOR.PATCH[-TAG]"
commit = true
tag = true
push = false

[bumpver.file_patterns]
"bumpver.toml" = ['current_version = "{version}"']
"a.txt" = ["ver={version}", "pep={pep440_version}"]
'''
def read_wt():
    cfg=re.search(r'current_version = "([^"]*)"', open("bumpver.toml").read()).group(1)
    a=open("a.txt").read()
    return {"cfg":cfg, "ver":re.search(r"ver=(\S+)",a).group(1), "pep":re.search(r"pep=(\S+)",a).group(1)}
steps=0; mism=0
for hi,h in enumerate(hists):
    d=tempfile.mkdtemp(prefix="hist_"); cwd=os.getcwd(); os.chdir(d)
    try:
        sh("git","init","-q","-b","main","."); open("bumpver.toml","w").write(CFG); open("a.txt","w").write("intro\nver=v1.2.3-beta\npep=1.2.3b0\n")
        sh("git","add","-A"); sh("git","commit","-qm","init"); n_unrel=0
        for si,st in enumerate(h):
            steps+=1; act=st["act"]
            if act=="update":
                f=st["f"]; args=["update","-n","--date",dt.date.fromordinal(739000).isoformat(),"--tag-scope",st["scope"]]
                for k in ("major","minor","patch"):
                    if f[k]: args.append("--"+k)
                if f["tag"]!="none": args+=["--tag",f["tag"]]
                if f["tag_num"]: args.append("--tag-num")
                args.append("--commit" if st["commit"] else "--no-commit")
                if st["commit"]: args.append("--tag-commit" if st["tagit"] else "--no-tag-commit")
                old=dict(os.environ); os.environ.update(ENV); cap.msgs.clear()
                try: r=CliRunner().invoke(cli.cli,args)
                finally: os.environ.clear(); os.environ.update(old)
                ok=(r.exit_code==0)
                newv=[m.split(": ",1)[1] for m in cap.msgs if m.startswith("New Version:")]
                oldv=[m.split(": ",1)[1] for m in cap.msgs if m.startswith("Old Version:")]
                exp_wt={k:txt(v) for k,v in st["wt"].items()}
                got_wt=read_wt(); ntags=len(sh("git","tag","--list").split())
                problems=[]
                if ok!=st["ok"]: problems.append(("exit",r.exit_code,st["ok"],str(r.exception)[:80], cap.msgs[-2:]))
                if st["ok"] and (not newv or newv[0]!=txt(st["new"])): problems.append(("new",newv,txt(st["new"])))
                if st["ok"] and (not oldv or oldv[0]!=txt(st["start"])): problems.append(("start",oldv,txt(st["start"])))
                if got_wt!=exp_wt: problems.append(("wt",got_wt,exp_wt))
                if ntags!=st["ntags"]: problems.append(("ntags",ntags,st["ntags"]))
                if st["ok"] and st["tagit"]:
                    at=sh("git","tag","--points-at","HEAD").split()
                    if txt(st["new"]) not in at: problems.append(("tag-not-at-head",at))
                if st["ok"] and st["commit"]:
                    names=sh("git","show","--name-only","--format=","HEAD").split()
                    if sorted(names)!=["a.txt","bumpver.toml"]: problems.append(("commit-files",names))
                if problems:
                    mism+=1; print("MISMATCH hist",hi,"step",si,args,problems)
                    break
            elif act=="usercommit": sh("git","commit","-qam","user commit")
            elif act=="unrelated":
                n_unrel+=1; open("other.txt","a").write("x%d\n"%n_unrel); sh("git","add","other.txt"); sh("git","commit","-qm","unrelated")
            elif act=="newbranch": sh("git","checkout","-q","-b","feat")
            elif act=="switch":
                sh("git","checkout","-q",st["to"])
                if read_wt()!={k:txt(v) for k,v in st["wt"].items()}:
                    mism+=1; print("MISMATCH switch", read_wt()); break
    finally:
        os.chdir(cwd); shutil.rmtree(d)
print(steps,"steps replayed;",mism,"mismatching behaviours")
