---- MODULE MC05 ----
EXTENDS BVVersion, TLC

L(s) == [t |-> "lit", s |-> s]
Pt(p) == [t |-> "part", p |-> p]
Op(b) == [t |-> "opt", body |-> b]
DOT == L(<<46>>)
Patterns == <<
  <<Pt("MAJOR"), DOT, Pt("MINOR"), DOT, Pt("PATCH"), Op(<<Pt("PYTAG"), Pt("NUM")>>)>>,
  <<L(<<118>>), Pt("YYYY"), DOT, Pt("WW"), DOT, Pt("INC0")>>,
  <<Pt("YYYY"), DOT, Pt("MM"), Op(<<DOT, Pt("INC0")>>), Op(<<L(<<45>>), Pt("TAG")>>)>>,
  <<L(<<118>>), Pt("YYYY"), Pt("0M"), DOT, Pt("BUILD"), Op(<<L(<<45>>), Pt("TAG"), Op(<<Pt("NUM")>>)>>)>>
>>
Today == Ordinal(2026, 10, 3)
Dates == {Ordinal(2021,1,1), Ordinal(2021,1,4), Ordinal(2021,2,1), Ordinal(2020,12,31), Ordinal(2024,12,30)}
Tags == {"final","alpha","beta","rc","post","dev"}
Base(d) == [CalInfo(d) EXCEPT !.year_y = @] @@ [major |-> 0, minor |-> 0, patch |-> 0, bid |-> <<49,48,48,49>>, tag |-> "final", pytag |-> "", num |-> 0, inc0 |-> 0, inc1 |-> 1]
States == { [Base(d) EXCEPT !.major = mj, !.minor = mi, !.patch = pa, !.tag = tg, !.pytag = PyTagOfTag[tg], !.num = nu, !.inc0 = i0, !.bid = b] :
            d \in Dates, mj \in {1}, mi \in {0, 9}, pa \in {0, 3}, tg \in {"final","beta"}, nu \in {0, 2}, i0 \in {0, 1}, b \in {<<49,48,48,49>>, <<49,57,57,57>>} }
Flags == [major: BOOLEAN, minor: BOOLEAN, patch: BOOLEAN, tag_num: BOOLEAN, pin_increments: BOOLEAN, pin_date: BOOLEAN, tag: {"none"} \cup Tags]

VARIABLES p, v, f, d, lvl
vars == <<p, v, f, d, lvl>>
NoV == [none |-> TRUE]
NoF == [none |-> TRUE]
\* layered generation: TLC computes initial states on one thread, successors on all workers
Init == p \in 1..Len(Patterns) /\ d \in Dates /\ v = NoV /\ f = NoF /\ lvl = 0
Next == \/ lvl = 0 /\ v' \in States /\ lvl' = 1 /\ UNCHANGED <<p, d, f>>
        \/ lvl = 1 /\ f' \in Flags /\ lvl' = 2 /\ UNCHANGED <<p, d, v>>

\* ---- the README rules, per part ----
Resettable == DOMAIN InitialValue
LeftChanged(F, k, a, b) == \E j \in 1..(k-1) : a[F[j]] # b[F[j]]
CalFieldSet == {"year_y","year_g","quarter","month","dom","doy","week_w","week_u","week_v"}
ExpectedField(fld, a, cal, future) ==
  CASE fld \in CalFieldSet -> (IF f.pin_date \/ future THEN a[fld] ELSE cal[fld])
    [] fld = "major" -> a.major + (IF f.major THEN 1 ELSE 0)
    [] fld = "minor" -> a.minor + (IF f.minor THEN 1 ELSE 0)
    [] fld = "patch" -> a.patch + (IF f.patch THEN 1 ELSE 0)
    [] fld = "tag"   -> (IF f.tag = "none" THEN a.tag ELSE f.tag)
    [] fld = "pytag" -> PyTagOfTag[IF f.tag = "none" THEN a.tag ELSE f.tag]
    [] fld = "num"   -> (IF f.tag # "none" /\ f.tag # a.tag THEN 0 ELSE a.num + (IF f.tag_num THEN 1 ELSE 0))
    [] fld = "inc0"  -> a.inc0 + (IF f.pin_increments THEN 0 ELSE 1)
    [] fld = "inc1"  -> a.inc1 + (IF f.pin_increments THEN 0 ELSE 1)
    [] fld = "bid"   -> NextBuild(a.bid)
BumpOK(F, old, new, cal, future) ==
  \A k \in 1..Len(F) :
     IF F[k] \in Resettable /\ LeftChanged(F, k, old, new) THEN new[F[k]] = InitialValue[F[k]]
     ELSE new[F[k]] = ExpectedField(F[k], old, cal, future)
D7(old) == f.tag_num /\ f.tag = "final" /\ old.tag = "final"
D1 == LET c == CalInfo(d) IN ~f.pin_date /\ ((c.week_w = 53 /\ HasPart(Patterns[p], {"WW","0W"})) \/ (c.week_u = 53 /\ HasPart(Patterns[p], {"UU","0U"})))
D6(old) == f.pin_date /\ ((old.week_w = 0 /\ HasPart(Patterns[p], {"WW","0W"})) \/ (old.week_u = 0 /\ HasPart(Patterns[p], {"UU","0U"})))
Inv == lvl = 2 =>
  LET P == Patterns[p] t0 == Render(v, P) IN
  t0 # <<>> =>
  LET old == ParseVersion(t0, P, Today) IN
  ~IsBad(old) =>
  LET out == Incr(t0, P, f, d, Today, TRUE) IN
  (out # None /\ ~D7(old) /\ ~D1 /\ ~D6(old)) =>
  LET new == ParseVersion(out, P, Today) cal == CalInfo(d) IN
  ~IsBad(new) /\ BumpOK(FieldOrder(P), old, new, cal, CalGt(old, cal))
====
