SPECIFICATION Spec
CONSTRAINT Export
CHECK_DEADLOCK FALSE
