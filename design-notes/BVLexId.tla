---- MODULE BVLexId ----
EXTENDS BVText
\* decimal increment on a digit sequence, keeping the width (may grow by one on carry out)
RECURSIVE IncDigits(_)
IncDigits(d) == IF d = <<>> THEN <<49>>
                ELSE IF d[Len(d)] < 57 THEN [d EXCEPT ![Len(d)] = @ + 1]
                ELSE IncDigits(SubSeq(d, 1, Len(d)-1)) \o <<48>>
AllNines(d) == \A q \in 1..Len(d) : d[q] = 57
\* multiply a digit sequence by 11  (x*10 + x)
RECURSIVE AddDigits(_,_,_)
AddDigits(a, b, carry) ==   \* a, b same length
  IF a = <<>> THEN (IF carry = 1 THEN <<49>> ELSE <<>>)
  ELSE LET s == (a[Len(a)] - 48) + (b[Len(b)] - 48) + carry
       IN AddDigits(SubSeq(a,1,Len(a)-1), SubSeq(b,1,Len(b)-1), s \div 10) \o <<48 + (s % 10)>>
Times11(d) == AddDigits(d \o <<48>>, <<48>> \o d, 0)
\* lexid.next_id
NextId(d) == IF AllNines(d) THEN <<>>                       \* overflow
             ELSE LET n == IncDigits(d)                     \* same width unless carry out of the first digit
                      m == IF Len(n) > Len(d) THEN n ELSE n
                  IN IF Len(n) = Len(d) /\ n[1] = d[1] THEN n ELSE Times11(DropZeros(n))
\* bumpver: ids below 1000 are lifted by 1000 first (prevents truncation of leading zeros)
Below1000(d) == Len(DropZeros(d)) <= 3
Plus1000(d) == LET x == Pad(DropZeros(d), 3) IN <<49>> \o x     \* for values < 1000: 1000 + x
NextBuild(d) == NextId(IF Below1000(d) THEN Plus1000(d) ELSE d)
====
