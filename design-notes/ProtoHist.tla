---- MODULE ProtoHist ----
EXTENDS Integers, Sequences, FiniteSets, TLC, Json

V  == INSTANCE BVVersion
PE == INSTANCE BVPep440

\* ---------- project constants ----------
Lt(s) == [t |-> "lit", s |-> s]
Pt(p) == [t |-> "part", p |-> p]
Op(b) == [t |-> "opt", body |-> b]
DOT == Lt(<<46>>)
P == <<Lt(<<118>>), Pt("MAJOR"), DOT, Pt("MINOR"), DOT, Pt("PATCH"), Op(<<Lt(<<45>>), Pt("TAG")>>)>>      \* vMAJOR.MINOR.PATCH[-TAG]
D == <<Pt("MAJOR"), DOT, Pt("MINOR"), DOT, Pt("PATCH"), Op(<<Pt("PYTAG"), Pt("NUM")>>)>>                      \* its {pep440_version} pattern
V0 == <<118, 49, 46, 50, 46, 51, 45, 98, 101, 116, 97>>      \* v1.2.3-beta
Today0 == 739000
Branches == {"main", "feat"}
NoFlags == [major |-> FALSE, minor |-> FALSE, patch |-> FALSE, tag |-> "none", tag_num |-> FALSE, pin_increments |-> FALSE, pin_date |-> FALSE]
FlagSets == { [NoFlags EXCEPT !.patch = TRUE], [NoFlags EXCEPT !.minor = TRUE], [NoFlags EXCEPT !.tag = "rc"], [NoFlags EXCEPT !.tag = "final"],
              [NoFlags EXCEPT !.major = TRUE, !.tag = "alpha"], NoFlags }
Scopes == {"default", "global", "branch"}

VARIABLES br, heads, commits, tags, wt, dirty, last, hist
vars == <<br, heads, commits, tags, wt, dirty, last, hist>>

PepOf(text) == V!Render(V!ParseVersion(text, P, Today0), D)
Files(text) == [cfg |-> text, ver |-> text, pep |-> PepOf(text)]
Init == /\ br = "main" /\ commits = << [parent |-> 0, files |-> Files(V0)] >> /\ heads = [main |-> 1, feat |-> 0]
        /\ tags = {} /\ wt = Files(V0) /\ dirty = FALSE /\ last = [act |-> "init"] /\ hist = <<>>

RECURSIVE Ancestors(_)
Ancestors(c) == IF c = 0 THEN {} ELSE {c} \cup Ancestors(commits[c].parent)
TagsInScope(scope) == IF scope = "branch" THEN {t \in tags : t.at \in Ancestors(heads[br])} ELSE tags
Valid(names) == {n \in names : ~V!IsBad(V!ParseVersion(n, P, Today0))}
MaxOf(S) == CHOOSE m \in S : \A o \in S : PE!VerCmp(o, m) <= 0
Resolve(scope) == LET vt == Valid({t.name : t \in TagsInScope(scope)}) IN
                  IF vt = {} THEN wt.cfg
                  ELSE LET m == MaxOf(vt) IN IF scope = "default" /\ PE!VerCmp(m, wt.cfg) <= 0 THEN wt.cfg ELSE m

Log(rec) == hist' = Append(hist, rec)
Update(f, scope, commit, tagit) ==
  /\ (tagit => commit)
  /\ (~tagit => scope = "default")          \* domain of C08 histories (DESIGN 6, C08)
  /\ LET start == Resolve(scope)
         out == V!Incr(start, P, f, Today0, Today0, TRUE)
         ok1 == out # V!None /\ PE!VerCmp(start, out) = -1
         ok2 == ok1 /\ (scope = "branch" => out \notin {t.name : t \in tags})
         ok  == ok2 /\ ~(commit /\ dirty)
     IN /\ IF ok THEN /\ wt' = Files(out)
                      /\ IF commit
                         THEN /\ commits' = Append(commits, [parent |-> heads[br], files |-> Files(out)])
                              /\ heads' = [heads EXCEPT ![br] = Len(commits) + 1]
                              /\ tags' = IF tagit THEN tags \cup {[name |-> out, at |-> Len(commits) + 1]} ELSE tags
                              /\ dirty' = FALSE
                         ELSE /\ dirty' = TRUE /\ UNCHANGED <<commits, heads, tags>>
              ELSE UNCHANGED <<wt, commits, heads, tags, dirty>>
        /\ last' = [act |-> "update", ok |-> ok, start |-> start, new |-> IF ok2 THEN out ELSE <<0>>, tagit |-> tagit, commit |-> commit]
        /\ Log([act |-> "update", f |-> f, scope |-> scope, commit |-> commit, tagit |-> tagit, ok |-> ok, start |-> start, new |-> IF ok1 THEN out ELSE <<0>>,
                wt |-> IF ok THEN Files(out) ELSE wt, ntags |-> Cardinality(IF ok /\ tagit THEN tags \cup {[name |-> out, at |-> 0]} ELSE tags)])
  /\ UNCHANGED br
UserCommit == /\ dirty /\ commits' = Append(commits, [parent |-> heads[br], files |-> wt]) /\ heads' = [heads EXCEPT ![br] = Len(commits) + 1]
              /\ dirty' = FALSE /\ last' = [act |-> "usercommit"] /\ Log([act |-> "usercommit"]) /\ UNCHANGED <<br, tags, wt>>
Unrelated == /\ ~dirty /\ commits' = Append(commits, [parent |-> heads[br], files |-> wt]) /\ heads' = [heads EXCEPT ![br] = Len(commits) + 1]
             /\ last' = [act |-> "unrelated"] /\ Log([act |-> "unrelated"]) /\ UNCHANGED <<br, tags, wt, dirty>>
NewBranch == /\ ~dirty /\ heads.feat = 0 /\ heads' = [heads EXCEPT !.feat = heads[br]] /\ br' = "feat"
             /\ last' = [act |-> "newbranch"] /\ Log([act |-> "newbranch"]) /\ UNCHANGED <<commits, tags, wt, dirty>>
Switch(b) == /\ ~dirty /\ b # br /\ heads[b] # 0 /\ br' = b /\ wt' = commits[heads[b]].files
             /\ last' = [act |-> "switch"] /\ Log([act |-> "switch", to |-> b, wt |-> commits[heads[b]].files]) /\ UNCHANGED <<heads, commits, tags, dirty>>
Next == \/ \E f \in FlagSets, s \in Scopes, c \in BOOLEAN, t \in BOOLEAN : Update(f, s, c, t)
        \/ UserCommit \/ Unrelated \/ NewBranch \/ \E b \in Branches : Switch(b)
Spec == Init /\ [][Next]_vars

\* ---------- C08 ----------
Agreement == (last.act = "update" /\ last.ok) =>
   /\ wt.cfg = last.new /\ wt.ver = last.new /\ wt.pep = PepOf(last.new)
   /\ PE!VerCmp(last.start, last.new) = -1
   /\ (last.tagit => \E t \in tags : t.name = last.new /\ t.at = heads[br])
   /\ (last.commit => commits[heads[br]].files = wt)
TagsUnique == \A a, b \in tags : a.name = b.name => a = b
Depth == 8
Export == Len(hist) < Depth \/ PrintT("HIST " \o ToJson(hist))
====
