import json, random, datetime as dt, sys
from bumpver import v2version, version, v2patterns
PARTS = sorted(["YYYY","YY","0Y","GGGG","GG","0G","Q","MM","0M","DD","0D","JJJ","00J","WW","0W","UU","0U","VV","0V",
         "MAJOR","MINOR","PATCH","BUILD","BLD","TAG","PYTAG","NUM","INC0","INC1"], key=len, reverse=True)
def parse_pat(s):
    # left-to-right, longest part name first; brackets; \[ \] escapes
    def seq(i, depth):
        out=[]; lit=[]
        def flush():
            if lit: out.append({"t":"lit","s":[ord(c) for c in lit]}); lit.clear()
        while i < len(s):
            if s.startswith("\\[", i) or s.startswith("\\]", i):
                lit.append(s[i+1]); i+=2; continue
            if s[i]=="[":
                flush(); body,i = seq(i+1, depth+1); out.append({"t":"opt","body":body}); continue
            if s[i]=="]":
                assert depth>0; flush(); return out, i+1
            for p in PARTS:
                if s.startswith(p, i):
                    flush(); out.append({"t":"part","p":p}); i+=len(p); break
            else:
                lit.append(s[i]); i+=1
        flush(); assert depth==0; return out, i
    return seq(0,0)[0]
def cp(s): return [ord(c) for c in s]
def state(v):
    d=v._asdict(); out={}
    for k,val in d.items():
        if k in ("githash","hexhash"): continue
        if k=="bid": out[k]=cp(val)
        elif val is None: out[k]=-1
        else: out[k]=val
    return out
CORPUS = ["vYYYY0M.BUILD[-TAG]","MAJOR.MINOR.PATCH[PYTAGNUM]","MAJOR.MINOR[.PATCH[PYTAGNUM]]","YYYY.BUILD[PYTAGNUM]","YYYY.BUILD[-TAG]",
  "YYYY.INC0[PYTAGNUM]","YYYY0M.PATCH[-TAG]","YYYY.0M","YYYY.MM","YYYY.WW","YYYY.MM.PATCH[PYTAGNUM]","YYYY.0M.PATCH[PYTAGNUM]","YYYY.MM.INC0",
  "YYYY.MM.DD","YYYY.0M.0D","YY.0M.PATCH","vYYYY.WW[-TAG]","vYYYY.0W[.INC0][-TAG]","vGGGG.0V","GGGG.VV.PATCH","vYYYYqQ.BUILD","YYYY.JJJ.INC1","vYYYYd00J.BUILD[-TAG]",
  "vMAJOR[.MINOR[.PATCH[-TAG[NUM]]]]","YYYY.MM[.INC0]","vYY.0M.0D[-TAG]","0Y.0U.PATCH","YYYY.UU.INC1-TAGNUM","MAJOR.MINOR.PATCH-TAG","vYYYY.0M[.PATCH][-TAGNUM]",
  "YYYY.VV", "GGGG.WW", "release-MAJOR.MINOR\\[x\\]", "BUILD", "YYYY.BLD[PYTAGNUM]", "vYYYYwWW.BLD[-TAG]"]
TAGS=["final","dev","alpha","beta","rc","post"]
def rnd_state(rng):
    date = dt.date(rng.randrange(2001,2099), rng.randrange(1,13), rng.randrange(1,29)) if rng.random()<.8 else rng.choice([dt.date(2012,12,31),dt.date(2021,1,1),dt.date(2020,12,31),dt.date(2024,12,30),dt.date(2016,2,29),dt.date(2021,1,3)])
    tag = rng.choice(TAGS)
    kw = dict(v2version.cal_info(date)._asdict(), major=rng.choice([0,1,9,10,99]), minor=rng.choice([0,1,9,10]), patch=rng.choice([0,1,9,99,100]),
              bid=rng.choice(["1","7","0001","0099","0999","1000","1001","1999","9999","22000","09999","899999"]), tag=tag, pytag=version.PEP440_TAG_BY_TAG[tag],
              githash="", hexhash="", num=rng.choice([0,0,1,9,10]), inc0=rng.choice([0,1,9]), inc1=rng.choice([1,2,10]))
    return version.V2VersionInfo(**kw), date
def main(n, seed, path):
    rng=random.Random(seed); k=0
    with open(path,"w") as f:
        def emit(e):
            nonlocal k; k+=1; e["id"]=k; f.write(json.dumps(e)+"\n")
        for i in range(n):
            ps = rng.choice(CORPUS); P = parse_pat(ps)
            v, date = rnd_state(rng)
            today = dt.date(2026,10,3); version.TODAY = today
            text = v2version.format_version(v, ps)
            emit({"ev":"render","P":P,"v":state(v),"text":cp(text),"dbg":ps+" "+text})
            try:
                v2 = v2version.parse_version_info(text, ps); sv = state(v2)
            except version.PatternError:
                sv = {"bad":True}
            except ValueError:
                sv = {"bad":True}
            emit({"ev":"parse","P":P,"text":cp(text),"today":today.toordinal(),"v":sv,"dbg":ps+" "+text})
            # incr
            fl = dict(major=rng.random()<.25 and "MAJOR" in ps, minor=rng.random()<.25 and "MINOR" in ps, patch=rng.random()<.35 and "PATCH" in ps,
                      tag=rng.choice(["none"]*4+TAGS), tag_num=rng.random()<.2, pin_increments=rng.random()<.15, pin_date=rng.random()<.2)
            nd = date + dt.timedelta(days=rng.choice([0,0,1,31,366,-1,-400,7]))
            if text == "": continue
            try:
                out = v2version.incr(text, ps, major=fl["major"], minor=fl["minor"], patch=fl["patch"], tag=None if fl["tag"]=="none" else fl["tag"],
                                     tag_num=fl["tag_num"], pin_increments=fl["pin_increments"], pin_date=fl["pin_date"], maybe_date=None if fl["pin_date"] else nd)
            except Exception as ex:
                continue
            emit({"ev":"incr","P":P,"old":cp(text),"f":fl,"date":nd.toordinal(),"today":today.toordinal(),"out":[0] if out is None else cp(out),
                  "dbg":"%s %s %s %s -> %s"%(ps,text,{k:v for k,v in fl.items() if v and v!='none'},nd,out)})
    print(k,"events")
if __name__ == "__main__": main(int(sys.argv[1]), int(sys.argv[2]), sys.argv[3])
