import json, random, re, datetime as dt, sys
from bumpver import v1version, version
def cp(s): return [ord(c) for c in s]
def parse_pat(s):
    out=[]; i=0; lit=[]
    for m in re.finditer(r"\{([A-Za-z0-9_]+)\}|([^{]+|\{)", s):
        if m.group(1): out.append({"t":"part","p":m.group(1)})
        else: out.append({"t":"lit","s":cp(m.group(2))})
    return out
def state(v):
    d=v._asdict(); return {k:(cp(val) if k=="bid" else (-1 if val is None else val)) for k,val in d.items()}
PATS = ["{pycalver}","{semver}","v{year}{month}{build}{release}","{year}{month}{build}{release}","v{year}{build}{release}","{year}{build}{release}",
        "v{year}.{month}.{dom}","{year}.{month_short}.{dom_short}","v{yy}.{month}.{MINOR}","{year}q{quarter}.{build_no}","v{year}d{doy}{build}{release}","{year}.{doy_short}.{PATCH}",
        "{MAJOR}.{MINOR}.{PATCH}-{tag}","v{MAJOR}.{MM}.{PPP}","{calver}{build}{release}","{year}-{month}-{dom}.{bid}", "{yyyy}.{BID}-{release_tag}"]
def main(n, seed, path):
    rng=random.Random(seed); k=0
    with open(path,"w") as f:
        def emit(e):
            nonlocal k; k+=1; e["id"]=k; f.write(json.dumps(e)+"\n")
        for i in range(n):
            p=rng.choice(PATS); P=parse_pat(p)
            date = dt.date(rng.randrange(2000,2099), rng.randrange(1,13), rng.randrange(1,29))
            tag=rng.choice(["final","alpha","beta","rc","dev","post"])
            kw=dict(v1version.cal_info(date)._asdict(), major=rng.choice([0,1,9,10]), minor=rng.choice([0,1,9,10]), patch=rng.choice([0,1,9,100]), bid=rng.choice(["0001","0999","1000","9998","12345"]), tag=tag)
            v=version.V1VersionInfo(**kw)
            t=v1version.format_version(v,p)
            emit({"ev":"render","P":P,"v":state(v),"text":cp(t),"dbg":p+" "+t})
            try: sv=state(v1version.parse_version_info(t,p))
            except version.PatternError: sv={"bad":True}
            emit({"ev":"parse","P":P,"text":cp(t),"v":sv,"dbg":p+" "+t})
            nd = date+dt.timedelta(days=rng.choice([0,1,40,400,-30]))
            fl=dict(major=rng.random()<.2, minor=rng.random()<.2, patch=rng.random()<.3, tag=rng.choice(["none","none","beta","final","rc"]), pin_date=rng.random()<.2)
            try:
                out=v1version.incr(t,p,major=fl["major"],minor=fl["minor"],patch=fl["patch"],tag=None if fl["tag"]=="none" else fl["tag"],pin_date=fl["pin_date"],maybe_date=None if fl["pin_date"] else nd)
                o=[0] if out is None else cp(out)
            except OverflowError: o=[0,0]
            emit({"ev":"incr","P":P,"old":cp(t),"f":fl,"date":nd.toordinal(),"out":o,"dbg":"%s %s %s %s"%(p,t,fl,nd)})
    print(k,"events")
if __name__=="__main__": main(int(sys.argv[1]), int(sys.argv[2]), sys.argv[3])
