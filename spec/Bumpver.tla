------------------------------- MODULE Bumpver -------------------------------
(***************************************************************************)
(* Level 1: a project under version control through a HISTORY of           *)
(* invocations (property C08).                                             *)
(*                                                                         *)
(* State                                                                   *)
(*   br        current branch          heads   branch -> commit (0: none)  *)
(*   commits   sequence of [parent, files]   (files = the version texts a  *)
(*             commit holds: config value, {version} occurrence,           *)
(*             {pep440_version} occurrence, and the occurrence of a        *)
(*             PARTIAL pattern (GenPartial, e.g. series MAJOR.MINOR) kept  *)
(*             in a file of its own)                                       *)
(*   tags      set of [name, at, ver]  (ver: the name parsed once)         *)
(*   wt        working tree: the same three texts;  dirty: uncommitted     *)
(*   day       the date (never decreases)                                  *)
(*   otherDirty a tracked file that carries no version pattern has unstaged   *)
(*             modifications (only --allow-dirty lets a committing update   *)
(*             proceed; the modification must stay out of the bump commit)  *)
(*   cscope    the project's configured tag scope (fixed for a history:    *)
(*             `show` and `update` then resolve the version the same way)  *)
(*   pend      the step being chosen: first WHICH kind of step (so that    *)
(*             simulation picks branch switches as often as updates), then *)
(*             the parameters of an invocation, then Update evaluates once *)
(*   last      what the last step did (read by the invariants)             *)
(*   hist      history variable for export (hidden from the state space    *)
(*             by a VIEW in the exhaustive configuration)                  *)
(*                                                                         *)
(* Update follows the pipeline of the implementation: resolve the start    *)
(* version by tag scope, increment, gate (greater; unique when scope is    *)
(* branch), dirty check, rewrite all three texts, commit (git refuses an   *)
(* empty commit), tag.                                                     *)
(***************************************************************************)
EXTENDS BVDerived, TLC, Json, Gen_Hist

VARIABLES br, heads, commits, tags, wt, dirty, day, pend, last, hist, cscope, otherDirty
vars == <<br, heads, commits, tags, wt, dirty, day, pend, last, hist, cscope, otherDirty>>
Branches == {"main", "feat"}
Scopes == {"default", "global", "branch"}
DP == Pep440Pattern(GenP)
PepOf(text) == Render(ParseVersion(text, GenP, GenToday), DP)
Files(text) == [cfg |-> text, ver |-> text, pep |-> PepOf(text), part |-> Render(ParseVersion(text, GenP, GenToday), GenPartial)]
NoPend == [none |-> TRUE]
Init == /\ br = "main" /\ commits = << [parent |-> 0, files |-> Files(GenV0)] >> /\ heads = [main |-> 1, feat |-> 0]
        /\ tags = {} /\ wt = Files(GenV0) /\ dirty = FALSE /\ day = GenDay0 /\ pend = NoPend /\ last = [act |-> "init"] /\ hist = <<>>
        /\ cscope \in Scopes /\ otherDirty = FALSE

RECURSIVE Ancestors(_)
Ancestors(c) == IF c = 0 THEN {} ELSE {c} \cup Ancestors(commits[c].parent)
TagsInScope(scope) == IF scope = "branch" THEN {t \in tags : t.at \in Ancestors(heads[br])} ELSE tags
CmpRec(a, b) == IF a.pep /\ b.pep THEN PepCmp(a, b) ELSE VerCmp(a.text, b.text)
TagVer(name) == ParseVer(name) @@ [text |-> name]
\* greatest valid tag in scope (every tag this machine creates is a valid version of the pattern)
MaxTagRec(S) == CHOOSE m \in S : \A o \in S : CmpRec(o.ver, m.ver) <= 0
Resolve(scope) == LET ts == TagsInScope(scope) cv == TagVer(wt.cfg) IN
                  IF ts = {} THEN wt.cfg
                  ELSE LET m == MaxTagRec(ts) IN IF scope = "default" /\ CmpRec(m.ver, cv) <= 0 THEN wt.cfg ELSE m.name

Log(rec) == hist' = Append(hist, rec)
\* which kind of step comes next: chosen uniformly among the kinds that are possible in the current state
Kinds == {"update", "touchother", "usercommit", "unrelated", "newbranch", "switch"}
Possible(k) == CASE k = "update" -> TRUE
                 [] k = "touchother" -> ~otherDirty
                 [] k = "usercommit" -> dirty \/ otherDirty
                 [] k = "unrelated" -> ~dirty /\ ~otherDirty
                 [] k = "newbranch" -> ~dirty /\ ~otherDirty /\ heads.feat = 0
                 [] k = "switch" -> ~dirty /\ ~otherDirty /\ \E b \in Branches : b # br /\ heads[b] # 0
StepKind(k) == pend = [kind |-> k]
Pick == /\ pend = NoPend /\ Len(hist) < GenDepth
        /\ \E k \in Kinds : Possible(k) /\ pend' = [kind |-> k]
        /\ UNCHANGED <<br, heads, commits, tags, wt, dirty, day, last, hist, cscope, otherDirty>>
\* parameters of the next invocation (tag/push need commit).  An untagged update under scope global / branch leaves the config ahead of the tags: the next update
\* starts from the tag again and may land on the version the files already show - then there is nothing to commit and git refuses (the `same` case of Update)
Choose == /\ StepKind("update")
          /\ \E f \in GenFlagSets, c \in BOOLEAN, t \in BOOLEAN, dd \in GenDayStep, al \in BOOLEAN :
               /\ (t => c) /\ (al => otherDirty /\ c)
               /\ pend' = [f |-> f, scope |-> cscope, commit |-> c, tagit |-> t, day |-> day + dd, allow |-> al]
          /\ UNCHANGED <<br, heads, commits, tags, wt, dirty, day, last, hist, cscope, otherDirty>>
Update ==
  /\ "f" \in DOMAIN pend
  /\ LET f == pend.f scope == pend.scope commit == pend.commit tagit == pend.tagit
         start == Resolve(scope)
         out == Incr(start, GenP, f, pend.day, GenToday, Dev)
         ok1 == out # None /\ out # Raises /\ VerCmp(start, out) = -1
         ok2 == ok1 /\ (scope = "branch" => out \notin {t.name : t \in tags})
         blocked == commit /\ (dirty \/ (otherDirty /\ ~pend.allow))      \* dirty check: config and files are pattern files; other files block unless --allow-dirty
         same == ok2 /\ Files(out) = wt                   \* nothing to rewrite: git refuses the empty commit
         ok == ok2 /\ ~blocked /\ ~(commit /\ same)
     IN /\ IF ok2 /\ ~blocked
           THEN /\ wt' = Files(out)
                /\ IF commit /\ ~same
                   THEN /\ commits' = Append(commits, [parent |-> heads[br], files |-> Files(out)])
                        /\ heads' = [heads EXCEPT ![br] = Len(commits) + 1]
                        /\ tags' = IF tagit THEN tags \cup {[name |-> out, at |-> Len(commits) + 1, ver |-> TagVer(out)]} ELSE tags
                        /\ dirty' = FALSE
                   ELSE /\ dirty' = (IF commit \/ same THEN dirty ELSE TRUE) /\ UNCHANGED <<commits, heads, tags>>       \* rewriting the texts the files already show leaves the tree as it was
           ELSE UNCHANGED <<wt, commits, heads, tags, dirty>>
        /\ last' = [act |-> "update", ok |-> ok, start |-> start, new |-> IF ok2 THEN out ELSE None, tagit |-> tagit, commit |-> commit, scope |-> scope, prev |-> wt.cfg]
        /\ Log([act |-> "update", f |-> f, scope |-> scope, commit |-> commit, tagit |-> tagit, day |-> pend.day, allow |-> pend.allow, other_dirty |-> otherDirty, ok |-> ok, start |-> start,
                new |-> IF ok1 THEN out ELSE None, wt |-> IF ok2 /\ ~blocked THEN Files(out) ELSE wt,
                ntags |-> Cardinality(IF ok /\ tagit THEN tags \cup {[name |-> out]} ELSE {[name |-> t.name] : t \in tags})])
  /\ day' = pend.day /\ pend' = NoPend /\ UNCHANGED <<br, cscope, otherDirty>>
TouchOther == /\ StepKind("touchother") /\ pend' = NoPend /\ otherDirty' = TRUE
              /\ last' = [act |-> "touchother"] /\ Log([act |-> "touchother"]) /\ UNCHANGED <<br, heads, commits, tags, wt, dirty, day, cscope>>
UserCommit == /\ StepKind("usercommit") /\ pend' = NoPend /\ otherDirty' = FALSE
              /\ commits' = Append(commits, [parent |-> heads[br], files |-> wt]) /\ heads' = [heads EXCEPT ![br] = Len(commits) + 1]
              /\ dirty' = FALSE /\ last' = [act |-> "usercommit"] /\ Log([act |-> "usercommit"]) /\ UNCHANGED <<br, tags, wt, day, cscope>>
Unrelated == /\ StepKind("unrelated") /\ pend' = NoPend
             /\ commits' = Append(commits, [parent |-> heads[br], files |-> wt]) /\ heads' = [heads EXCEPT ![br] = Len(commits) + 1]
             /\ last' = [act |-> "unrelated"] /\ Log([act |-> "unrelated"]) /\ UNCHANGED <<br, tags, wt, dirty, day, cscope, otherDirty>>
NewBranch == /\ StepKind("newbranch") /\ pend' = NoPend /\ heads' = [heads EXCEPT !.feat = heads[br]] /\ br' = "feat"
             /\ last' = [act |-> "newbranch"] /\ Log([act |-> "newbranch"]) /\ UNCHANGED <<commits, tags, wt, dirty, day, cscope, otherDirty>>
Switch(b) == /\ StepKind("switch") /\ pend' = NoPend /\ b # br /\ heads[b] # 0 /\ br' = b /\ wt' = commits[heads[b]].files
             /\ last' = [act |-> "switch"] /\ Log([act |-> "switch", to |-> b, wt |-> commits[heads[b]].files]) /\ UNCHANGED <<heads, commits, tags, dirty, day, cscope, otherDirty>>
Next == Pick \/ Choose \/ Update \/ TouchOther \/ UserCommit \/ Unrelated \/ NewBranch \/ \E b \in Branches : Switch(b)
Spec == Init /\ [][Next]_vars

\* ---------- C08 ----------
Succeeded == last.act = "update" /\ last.ok
\* config value, every occurrence and - when this update tagged - the newest tag all denote the announced version
Agreement == Succeeded =>
   /\ wt.cfg = last.new /\ wt.ver = last.new /\ wt.pep = PepOf(last.new) /\ wt.part = Files(last.new).part
   /\ (last.tagit => \E t \in tags : t.name = last.new /\ t.at = heads[br])
   /\ (last.tagit => \A t \in TagsInScope(last.scope) : CmpRec(t.ver, TagVer(last.new)) <= 0)
   /\ (last.commit => commits[heads[br]].files = wt)
StrictlyGreater == Succeeded => VerCmp(last.start, last.new) = -1 /\ (last.scope = "default" => VerCmp(last.prev, last.new) = -1)
TagsUnique == \A a, b \in tags : a.name = b.name => a = b
\* the state after a successful update is a legal input again: the version texts are valid and show resolves to the announced version
NextUpdatePossible == Succeeded =>
   /\ IsValid(wt.cfg, GenP, GenToday)
   /\ (last.tagit \/ last.scope = "default") => VerCmp(Resolve(last.scope), last.new) = 0
OneCommitOneTag == Succeeded /\ last.commit =>
   /\ commits[heads[br]].parent # 0
   /\ Cardinality({t \in tags : t.at = heads[br]}) = (IF last.tagit THEN 1 ELSE 0)
\* export of behaviours for replay (simulation mode): one JSON line per finished history
Export == (Len(hist) < GenDepth \/ pend # NoPend) \/ PrintT("HIST " \o ToJson(hist))
View == <<br, heads, commits, tags, wt, dirty, day, pend, last, cscope, otherDirty>>
=============================================================================
