------------------------------- MODULE BVParts -------------------------------
(***************************************************************************)
(* Level 0: the v2 part table (README "Part Overview").  For every         *)
(* documented part: the field of the version state it shows, the language  *)
(* its recogniser accepts (a BVRegex AST written from the README's range    *)
(* column, longest numeral first), its formatter, and its zero value.       *)
(* Undocumented parts (GITHASH, HEXHASH) are outside.                       *)
(***************************************************************************)
EXTENDS BVRegex, BVText

D(a, b) == Set(a..b)            \* code point class
Dg      == D(48,57)
C(c)    == Chr(c)

PartNames == {"YYYY","YY","0Y","GGGG","GG","0G","Q","MM","0M","DD","0D","JJJ","00J",
              "WW","0W","UU","0U","VV","0V","MAJOR","MINOR","PATCH","BUILD","BLD",
              "TAG","PYTAG","NUM","INC0","INC1"}
CalendarParts == {"YYYY","YY","0Y","GGGG","GG","0G","Q","MM","0M","DD","0D","JJJ","00J","WW","0W","UU","0U","VV","0V"}

\* "preview" is accepted by the recogniser as a spelling of a release candidate (not offered by --tag, not in the README's table): a version that carries it keeps it
TagNames   == {"final","dev","alpha","beta","rc","post","preview"}
TagWords   == [final |-> <<102,105,110,97,108>>, dev |-> <<100,101,118>>, alpha |-> <<97,108,112,104,97>>,
               beta |-> <<98,101,116,97>>, post |-> <<112,111,115,116>>, rc |-> <<114,99>>, preview |-> <<112,114,101,118,105,101,119>>]
PyTagWords == [dev |-> <<100,101,118>>, post |-> <<112,111,115,116>>, rc |-> <<114,99>>, a |-> <<97>>, b |-> <<98>>]
PyTagOfTag == [final |-> "", dev |-> "dev", alpha |-> "a", beta |-> "b", post |-> "post", rc |-> "rc", preview |-> "rc"]
TagOfPyTag(p) == CASE p = "a" -> "alpha" [] p = "b" -> "beta" [] p = "" -> "final" [] OTHER -> p
WordToName(w, table) == CHOOSE k \in DOMAIN table : table[k] = w

PartField(p) ==
  CASE p \in {"YYYY","YY","0Y"} -> "year_y" [] p \in {"GGGG","GG","0G"} -> "year_g" [] p = "Q" -> "quarter"
    [] p \in {"MM","0M"} -> "month" [] p \in {"DD","0D"} -> "dom" [] p \in {"JJJ","00J"} -> "doy"
    [] p \in {"WW","0W"} -> "week_w" [] p \in {"UU","0U"} -> "week_u" [] p \in {"VV","0V"} -> "week_v"
    [] p = "MAJOR" -> "major" [] p = "MINOR" -> "minor" [] p = "PATCH" -> "patch"
    [] p \in {"BUILD","BLD"} -> "bid" [] p = "TAG" -> "tag" [] p = "PYTAG" -> "pytag"
    [] p = "NUM" -> "num" [] p = "INC0" -> "inc0" [] p = "INC1" -> "inc1"

(* recogniser of each part; alternatives ordered so that the longest numeral is tried first.    *)
(* MaxWeek is 52 for WW/0W/UU/0U as README and recogniser have it; the design instance MC_C02   *)
(* shows that the calendar reaches 53 (finding S1).                                            *)
PartRx(p) ==
  CASE p \in {"YYYY","GGGG"} -> Cat(<<D(49,57), Rep(Dg,3,3)>>)
    [] p \in {"YY","GG"}     -> Cat(<<D(49,57), Opt(Dg)>>)
    [] p \in {"0Y","0G"}     -> Rep(Dg,2,2)
    [] p = "Q"               -> D(49,52)
    [] p = "MM"              -> Alt(<<Cat(<<C(49), D(48,50)>>), D(49,57)>>)
    [] p = "0M"              -> Alt(<<Cat(<<C(49), D(48,50)>>), Cat(<<C(48), D(49,57)>>)>>)
    [] p = "DD"              -> Alt(<<Cat(<<C(51), D(48,49)>>), Cat(<<D(49,50), Dg>>), D(49,57)>>)
    [] p = "0D"              -> Alt(<<Cat(<<C(51), D(48,49)>>), Cat(<<D(49,50), Dg>>), Cat(<<C(48), D(49,57)>>)>>)
    [] p = "JJJ"             -> Alt(<<Cat(<<C(51),C(54),D(48,54)>>), Cat(<<C(51),D(48,53),Dg>>), Cat(<<D(49,50),Dg,Dg>>), Cat(<<D(49,57),Dg>>), D(49,57)>>)
    [] p = "00J"             -> Alt(<<Cat(<<C(51),C(54),D(48,54)>>), Cat(<<C(51),D(48,53),Dg>>), Cat(<<D(49,50),Dg,Dg>>), Cat(<<C(48),D(49,57),Dg>>), Cat(<<C(48),C(48),D(49,57)>>)>>)
    [] p \in {"WW","UU"}     -> Alt(<<Cat(<<C(53), D(48,50)>>), Cat(<<D(49,52), Dg>>), Dg>>)
    [] p \in {"0W","0U"}     -> Alt(<<Cat(<<C(53), D(48,50)>>), Cat(<<D(48,52), Dg>>)>>)
    [] p = "VV"              -> Alt(<<Cat(<<C(53), D(48,51)>>), Cat(<<D(49,52), Dg>>), D(49,57)>>)
    [] p = "0V"              -> Alt(<<Cat(<<C(53), D(48,51)>>), Cat(<<D(49,52), Dg>>), Cat(<<C(48), D(49,57)>>)>>)
    [] p \in {"MAJOR","MINOR","PATCH","BUILD","NUM","INC0"} -> Rep(Dg,1,0)
    [] p \in {"BLD","INC1"}  -> Cat(<<D(49,57), Rep(Dg,0,0)>>)
    [] p = "TAG"             -> Alt(<<Lit(TagWords.preview), Lit(TagWords.final), Lit(TagWords.dev), Lit(TagWords.alpha), Lit(TagWords.beta), Lit(TagWords.post), Lit(TagWords.rc)>>)
    [] p = "PYTAG"           -> Alt(<<Lit(PyTagWords.dev), Lit(PyTagWords.post), Lit(PyTagWords.rc), Lit(PyTagWords.a), Lit(PyTagWords.b)>>)

\* formatter of each part on a version state
Fmt(p, v) ==
  CASE p = "YYYY" -> DigitsOf(v.year_y) [] p = "YY" -> DigitsOf(v.year_y % 100) [] p = "0Y" -> Pad(DigitsOf(v.year_y % 100), 2)
    [] p = "GGGG" -> DigitsOf(v.year_g) [] p = "GG" -> DigitsOf(v.year_g % 100) [] p = "0G" -> Pad(DigitsOf(v.year_g % 100), 2)
    [] p = "Q" -> DigitsOf(v.quarter)
    [] p = "MM" -> DigitsOf(v.month) [] p = "0M" -> Pad(DigitsOf(v.month), 2)
    [] p = "DD" -> DigitsOf(v.dom)   [] p = "0D" -> Pad(DigitsOf(v.dom), 2)
    [] p = "JJJ" -> DigitsOf(v.doy)  [] p = "00J" -> Pad(DigitsOf(v.doy), 3)
    [] p = "WW" -> DigitsOf(v.week_w) [] p = "0W" -> Pad(DigitsOf(v.week_w), 2)
    [] p = "UU" -> DigitsOf(v.week_u) [] p = "0U" -> Pad(DigitsOf(v.week_u), 2)
    [] p = "VV" -> DigitsOf(v.week_v) [] p = "0V" -> Pad(DigitsOf(v.week_v), 2)
    [] p = "MAJOR" -> DigitsOf(v.major) [] p = "MINOR" -> DigitsOf(v.minor) [] p = "PATCH" -> DigitsOf(v.patch)
    [] p = "BUILD" -> v.bid [] p = "BLD" -> DropZeros(v.bid)
    [] p = "TAG" -> TagWords[v.tag] [] p = "PYTAG" -> (IF v.pytag = "" THEN <<>> ELSE PyTagWords[v.pytag])
    [] p = "NUM" -> DigitsOf(v.num) [] p = "INC0" -> DigitsOf(v.inc0) [] p = "INC1" -> DigitsOf(v.inc1)

\* a part is "zero" (an optional group holding only zero parts is omitted)
IsZero(p, v) == CASE p = "MAJOR" -> v.major = 0 [] p = "MINOR" -> v.minor = 0 [] p = "PATCH" -> v.patch = 0
                  [] p = "TAG" -> v.tag = "final" [] p = "PYTAG" -> v.pytag = "" [] p = "NUM" -> v.num = 0
                  [] p = "INC0" -> v.inc0 = 0 [] OTHER -> FALSE

\* README normalisation rules for {pep440_version}: the unpadded / short counterpart of a part
Pep440Subst(p) == CASE p = "0Y" -> "YY" [] p = "0G" -> "GG" [] p = "0W" -> "WW" [] p = "0U" -> "UU" [] p = "0V" -> "VV" [] p = "0M" -> "MM" [] p = "0D" -> "DD"
                    [] p = "00J" -> "JJJ" [] p = "BUILD" -> "BLD" [] p = "TAG" -> "PYTAG" [] OTHER -> p
=============================================================================
