------------------------------ MODULE Pipeline ------------------------------
(***************************************************************************)
(* Level 1: the VCS side of one `bumpver update` as a step machine.  One   *)
(* action per linearisation point of the implementation (the names are the *)
(* hook events of DESIGN.md 4.1): Merge (flags into configuration, reject  *)
(* contradictions), Fetch, LsTags, Gate (+ tag listing of the uniqueness   *)
(* check), Status (dirty check), Write (file rewrite), PreHook, Add,       *)
(* Commit, PostHook, Tag, Push.  `conf` is a configuration of BVPipeline;  *)
(* `log` the ordered record of what the VCS and the hooks saw.             *)
(* Used by mc/MC_C10 (the whole lattice) and by trace/Trace_Pipeline (the  *)
(* hook events of real runs are consumed by these very actions).           *)
(***************************************************************************)
EXTENDS BVPipeline, TLC
VARIABLES conf, lvl, pc, log, exit, filesChanged
pvars == <<conf, lvl, pc, log, exit, filesChanged>>

Goto(p) == pc' = p /\ UNCHANGED <<conf, lvl>>
Emit(name) == log' = Append(log, name)
Fail == exit' = 1 /\ pc' = "done" /\ UNCHANGED <<conf, lvl>>
Fails(name) == conf.failat = name
Merge == pc = "merge" /\ (IF Contradiction(conf) THEN Fail /\ UNCHANGED <<log, filesChanged>> ELSE Goto("fetch") /\ UNCHANGED <<log, exit, filesChanged>>)
Fetch == pc = "fetch" /\ IF conf.fetch /\ conf.remote /\ ~conf.ignore
                         THEN Emit("fetch") /\ UNCHANGED filesChanged /\ (IF Fails("fetch") THEN Fail ELSE Goto("lstags") /\ UNCHANGED exit)
                         ELSE Goto("lstags") /\ UNCHANGED <<log, exit, filesChanged>>
EmitTags == Emit("lstags")
LsTags == pc = "lstags" /\ UNCHANGED filesChanged /\
          (IF conf.ignore THEN Goto("gate") /\ UNCHANGED <<log, exit>>
           ELSE EmitTags /\ (IF Fails("lstags") THEN Fail ELSE Goto("gate") /\ UNCHANGED exit))
\* the gate lists the tags of all branches once more when uniqueness is demanded
Gate == pc = "gate" /\ UNCHANGED filesChanged /\
        (IF conf.unique \/ conf.ignore THEN EmitTags /\ (IF Fails("lstags") THEN Fail ELSE Goto("aftergate") /\ UNCHANGED exit)
         ELSE Goto("aftergate") /\ UNCHANGED <<log, exit>>)
AfterGate == pc = "aftergate" /\ UNCHANGED <<log, exit, filesChanged>> /\ Goto(IF conf.dry THEN "done" ELSE IF MCommit(conf) THEN "status" ELSE "write")
Status == pc = "status" /\ Emit("status") /\ UNCHANGED filesChanged
          /\ (IF Fails("status") \/ DirtyBlocks(conf) THEN Fail ELSE Goto("write") /\ UNCHANGED exit)
Write == pc = "write" /\ filesChanged' = TRUE /\ UNCHANGED <<log, exit>> /\ Goto(IF MCommit(conf) THEN "prehook" ELSE "done")
PreHook == pc = "prehook" /\ UNCHANGED filesChanged /\
           (IF conf.pre = "absent" THEN Goto("add") /\ UNCHANGED <<log, exit>>
            ELSE Emit("prehook") /\ (IF HookFails(conf.pre) THEN Fail ELSE Goto("add") /\ UNCHANGED exit))
Add == pc = "add" /\ Emit("add") /\ UNCHANGED filesChanged /\ (IF Fails("add") THEN Fail ELSE Goto("commit") /\ UNCHANGED exit)
Commit == pc = "commit" /\ Emit("commit") /\ UNCHANGED filesChanged /\ (IF Fails("commit") THEN Fail ELSE Goto("posthook") /\ UNCHANGED exit)
PostHook == pc = "posthook" /\ UNCHANGED filesChanged /\
           (IF conf.post = "absent" THEN Goto("tag") /\ UNCHANGED <<log, exit>>
            ELSE Emit("posthook") /\ (IF HookFails(conf.post) THEN Fail ELSE Goto("tag") /\ UNCHANGED exit))
Tag == pc = "tag" /\ UNCHANGED filesChanged /\
       (IF ~MTag(conf) THEN Goto("push") /\ UNCHANGED <<log, exit>>
        ELSE Emit(TagName(conf)) /\ (IF Fails("tag") THEN Fail ELSE Goto("push") /\ UNCHANGED exit))
Push == pc = "push" /\ UNCHANGED filesChanged /\
       (IF ~MPush(conf) \/ ~conf.remote THEN Goto("done") /\ UNCHANGED <<log, exit>>
        ELSE Emit(PushName(conf)) /\ (IF Fails("push") THEN Fail ELSE Goto("done") /\ UNCHANGED exit))
Step == Merge \/ Fetch \/ LsTags \/ Gate \/ AfterGate \/ Status \/ Write \/ PreHook \/ Add \/ Commit \/ PostHook \/ Tag \/ Push
=============================================================================
