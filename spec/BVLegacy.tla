------------------------------ MODULE BVLegacy ------------------------------
(***************************************************************************)
(* Level 0: the legacy brace-style patterns ({pycalver}, {semver}, {year}, *)
(* {month}, {dom}, {doy}, {quarter}, {build_no}, {release}, {MAJOR} ...).  *)
(*   pattern ::= sequence of lit / part nodes; composites ({pycalver},     *)
(*   {semver}, {build}, {release}, {pep440_pycalver} ...) are expanded to  *)
(*   primitive nodes by Expand.                                            *)
(* Reading a legacy version is a PREFIX match (re.match without a length   *)
(* check); the build id successor is lexid's next_id WITHOUT the +1000     *)
(* lift of the v2 engine; --major/--minor reset the parts to their right.  *)
(* Names clash with BVVersion: instantiate as  Leg == INSTANCE BVLegacy.   *)
(***************************************************************************)
EXTENDS BVRegex, BVText, BVCalendar, BVLexId, BVDeviations

D(a, b) == Set(a..b)
Dg == D(48,57)
C(c) == Chr(c)
Wd(cs) == Lit(cs)
TagWords == [final |-> <<102,105,110,97,108>>, dev |-> <<100,101,118>>, alpha |-> <<97,108,112,104,97>>,
             beta |-> <<98,101,116,97>>, post |-> <<112,111,115,116>>, rc |-> <<114,99>>]
ShortOf == [final |-> <<>>, dev |-> <<100,101,118>>, alpha |-> <<97>>, beta |-> <<98>>, post |-> <<112,111,115,116>>, rc |-> <<114,99>>]
WordToTag(w) == IF \E k \in DOMAIN TagWords : TagWords[k] = w THEN CHOOSE k \in DOMAIN TagWords : TagWords[k] = w ELSE "unknown"

\* ---- simple parts: field, recogniser (as the legacy table has it), formatter ----
Field(p) ==
  CASE p \in {"year","yy","yyyy"} -> "year" [] p \in {"month","month_short"} -> "month" [] p \in {"dom","dom_short"} -> "dom"
    [] p \in {"doy","doy_short"} -> "doy" [] p = "quarter" -> "quarter" [] p \in {"bid","build_no","BID"} -> "bid"
    [] p \in {"tag","pep440_tag"} -> "tag" [] p = "MAJOR" -> "major" [] p \in {"MINOR","MM","MMM"} -> "minor" [] p \in {"PATCH","PP","PPP"} -> "patch"
Rx(p) ==
  CASE p \in {"year","yyyy"} -> Rep(Dg,4,4) [] p = "yy" -> Rep(Dg,2,2)
    [] p = "month" -> Alt(<<Cat(<<C(48), Dg>>), Cat(<<C(49), D(48,50)>>)>>)
    [] p = "month_short" -> Alt(<<Cat(<<C(49), D(48,50)>>), D(49,57)>>)
    [] p = "dom" -> Alt(<<Cat(<<C(48), D(49,57)>>), Cat(<<D(49,50), Dg>>), Cat(<<C(51), D(48,49)>>)>>)
    \* {dom_short}: longest numeral first; with deviation s16 the table lists the shortest alternative first (prefix match then reads 13 as 1)
    [] p = "dom_short" -> (IF Dev.s16 THEN Alt(<<D(49,57), Cat(<<D(49,50), Dg>>), Cat(<<C(51), D(48,49)>>)>>)
                           ELSE Alt(<<Cat(<<C(51), D(48,49)>>), Cat(<<D(49,50), Dg>>), D(49,57)>>))
    [] p = "doy" -> Alt(<<Cat(<<D(48,50), Dg, Dg>>), Cat(<<C(51), D(48,53), Dg>>), Cat(<<C(51), C(54), D(48,54)>>)>>)
    \* {doy_short}: the unpadded day of year; with deviation s16 only the zero-padded form is recognised
    [] p = "doy_short" -> (IF Dev.s16 THEN Alt(<<Cat(<<D(48,50), Dg, Dg>>), Cat(<<C(51), D(48,53), Dg>>), Cat(<<C(51), C(54), D(48,54)>>)>>)
                           ELSE Alt(<<Cat(<<C(51),C(54),D(48,54)>>), Cat(<<C(51),D(48,53),Dg>>), Cat(<<D(49,50),Dg,Dg>>), Cat(<<D(49,57),Dg>>), D(49,57)>>))
    [] p = "quarter" -> D(49,52)
    [] p \in {"bid","build_no"} -> Rep(Dg,4,0) [] p = "BID" -> Cat(<<D(49,57), Rep(Dg,0,0)>>)
    [] p = "tag" -> Alt(<<Wd(TagWords.alpha), Wd(TagWords.beta), Wd(TagWords.dev), Wd(TagWords.rc), Wd(TagWords.post), Wd(TagWords.final)>>)
    [] p = "pep440_tag" -> Cat(<<Opt(Alt(<<Wd(<<97>>), Wd(<<98>>), Wd(<<100,101,118>>), Wd(<<114,99>>), Wd(<<112,111,115,116>>)>>)), Rep(Dg,0,0)>>)
    [] p \in {"MAJOR","MINOR","PATCH"} -> Rep(Dg,1,0) [] p \in {"MM","PP"} -> Rep(Dg,2,0) [] p \in {"MMM","PPP"} -> Rep(Dg,3,0)
Fmt(p, v) ==
  CASE p \in {"year","yyyy"} -> DigitsOf(v.year) [] p = "yy" -> Pad(DigitsOf(v.year % 100), 2)
    [] p = "month" -> Pad(DigitsOf(v.month), 2) [] p = "month_short" -> DigitsOf(v.month)
    [] p = "dom" -> Pad(DigitsOf(v.dom), 2) [] p = "dom_short" -> DigitsOf(v.dom)
    [] p = "doy" -> Pad(DigitsOf(v.doy), 3) [] p = "doy_short" -> DigitsOf(v.doy)
    [] p = "quarter" -> DigitsOf(v.quarter)
    [] p \in {"bid","build_no"} -> v.bid [] p = "BID" -> DropZeros(v.bid)
    [] p = "tag" -> TagWords[v.tag] [] p = "pep440_tag" -> (IF v.tag = "final" THEN <<>> ELSE ShortOf[v.tag] \o <<48>>)
    [] p = "MAJOR" -> DigitsOf(v.major) [] p = "MINOR" -> DigitsOf(v.minor) [] p = "PATCH" -> DigitsOf(v.patch)
    [] p = "MM" -> Pad(DigitsOf(v.minor), 2) [] p = "MMM" -> Pad(DigitsOf(v.minor), 3) [] p = "PP" -> Pad(DigitsOf(v.patch), 2) [] p = "PPP" -> Pad(DigitsOf(v.patch), 3)

\* ---- patterns: lit / part / rel (the optional "-tag" of {release}) ; composites are expanded by Expand ----
LitN(s) == [t |-> "lit", s |-> s]
PartN(p) == [t |-> "part", p |-> p]
REL == [t |-> "rel"]
Expand1(n) ==
  IF n.t # "part" THEN <<n>> ELSE
  CASE n.p = "pycalver" -> <<LitN(<<118>>), PartN("year"), PartN("month"), LitN(<<46>>), PartN("bid"), REL>>
    [] n.p = "calver" -> <<LitN(<<118>>), PartN("year"), PartN("month")>>
    [] n.p = "semver" -> <<PartN("MAJOR"), LitN(<<46>>), PartN("MINOR"), LitN(<<46>>), PartN("PATCH")>>
    [] n.p = "build" -> <<LitN(<<46>>), PartN("bid")>>
    [] n.p = "release" -> <<REL>>
    [] n.p = "release_tag" -> <<PartN("tag")>>
    [] n.p \in {"pep440_pycalver", "pep440_version"} -> <<PartN("year"), PartN("month"), LitN(<<46>>), PartN("BID"), PartN("pep440_tag")>>
    [] OTHER -> <<n>>
Expand(pat) == Flatten([q \in 1..Len(pat) |-> Expand1(pat[q])])
CompileNode(n) == CASE n.t = "lit" -> Lit(n.s) [] n.t = "part" -> Grp(Field(n.p), Rx(n.p)) [] n.t = "rel" -> Opt(Cat(<<C(45), Grp("tag", Rx("tag"))>>))
Compile(pat) == LET e == Expand(pat) IN Cat([q \in 1..Len(e) |-> CompileNode(e[q])])
RenderNode(n, v) == CASE n.t = "lit" -> n.s [] n.t = "part" -> Fmt(n.p, v) [] n.t = "rel" -> (IF v.tag = "final" THEN <<>> ELSE <<45>> \o TagWords[v.tag])
Render(v, pat) == LET e == Expand(pat) IN Flatten([q \in 1..Len(e) |-> RenderNode(e[q], v)])

\* ---- reading: a PREFIX match is enough (re.match without length check) ----
NA == -1
Cap(c, f) == IF f \in DOMAIN c THEN c[f] ELSE <<>>
Num(c, f, dflt) == IF Cap(c, f) = <<>> THEN dflt ELSE NatOf(Cap(c, f))
LegacyTag(w) == IF w = <<>> THEN "final" ELSE
                IF w = <<97>> THEN "alpha" ELSE IF w = <<98>> THEN "beta" ELSE WordToTag(w)
Parse(text, pat) ==
  LET m == Match(Compile(pat), text) IN
  IF ~m.ok THEN [bad |-> TRUE] ELSE
  LET c == m.caps
      y0 == Num(c, "year", NA) y == IF y0 # NA /\ y0 < 100 THEN y0 + 2000 ELSE y0
      doy0 == Num(c, "doy", NA)
      fromDoy == y # NA /\ y # 0 /\ doy0 # NA /\ doy0 # 0
      md == IF fromDoy THEN LET n == DaysBeforeYear(y) + doy0 IN <<CalInfo(n).month, CalInfo(n).dom>> ELSE <<Num(c, "month", NA), Num(c, "dom", NA)>>
      hasDate == y # NA /\ y # 0 /\ md[1] # NA /\ md[1] # 0 /\ md[2] # NA /\ md[2] # 0
  IN IF hasDate /\ ~ValidDate(y, md[1], md[2]) THEN [bad |-> TRUE] ELSE
     LET ci == IF hasDate THEN CalInfo(Ordinal(y, md[1], md[2])) ELSE [doy |-> doy0, week_w |-> NA, week_u |-> NA]
         q0 == Num(c, "quarter", NA)
     IN [year |-> y, quarter |-> IF q0 # NA THEN q0 ELSE IF md[1] # NA /\ md[1] # 0 THEN Quarter(md[1]) ELSE NA,
         month |-> md[1], dom |-> md[2], doy |-> ci.doy, iso_week |-> ci.week_w, us_week |-> ci.week_u,
         major |-> Num(c, "major", 0), minor |-> Num(c, "minor", 0), patch |-> Num(c, "patch", 0),
         bid |-> IF Cap(c, "bid") = <<>> THEN <<48,48,48,49>> ELSE Cap(c, "bid"), tag |-> LegacyTag(Cap(c, "tag"))]
IsBad(v) == "bad" \in DOMAIN v

CalFields1 == <<"year","quarter","month","dom","doy","iso_week","us_week">>
RECURSIVE CalCmpFrom(_,_,_)
CalCmpFrom(l, r, q) == IF q > Len(CalFields1) THEN 0 ELSE LET f == CalFields1[q] IN
                       IF l[f] = NA \/ r[f] = NA THEN CalCmpFrom(l, r, q+1)
                       ELSE IF l[f] > r[f] THEN 1 ELSE IF l[f] < r[f] THEN -1 ELSE CalCmpFrom(l, r, q+1)
CalOf(n) == LET c == CalInfo(n) IN [year |-> c.year_y, quarter |-> c.quarter, month |-> c.month, dom |-> c.dom, doy |-> c.doy, iso_week |-> c.week_w, us_week |-> c.week_u]
None == <<0>>
Incr(oldtext, pat, f, date) ==
  LET v == Parse(oldtext, pat) IN IF IsBad(v) THEN None ELSE
  LET cal == IF f.pin_date THEN [k \in {"year","quarter","month","dom","doy","iso_week","us_week"} |-> v[k]] ELSE CalOf(date)
      c0 == IF CalCmpFrom(v, cal, 1) = 1 THEN v ELSE [k \in DOMAIN v |-> IF k \in DOMAIN cal THEN cal[k] ELSE v[k]]
      nb == NextId(c0.bid)
  IN IF nb = <<>> THEN <<0, 0>> ELSE      \* OverflowError
  LET c1 == [c0 EXCEPT !.bid = nb]
      c2 == IF f.major THEN [c1 EXCEPT !.major = @ + 1, !.minor = 0, !.patch = 0] ELSE c1
      c3 == IF f.minor THEN [c2 EXCEPT !.minor = @ + 1, !.patch = 0] ELSE c2
      c4 == IF f.patch THEN [c3 EXCEPT !.patch = @ + 1] ELSE c3
      c5 == IF f.tag # "none" THEN [c4 EXCEPT !.tag = f.tag] ELSE c4
      t == Render(c5, pat)
  IN IF t = oldtext THEN None ELSE t

VF == {"year","quarter","month","dom","doy","iso_week","us_week","major","minor","patch","bid","tag"}
Same(a, b) == IF IsBad(a) \/ IsBad(b) THEN IsBad(a) = IsBad(b) ELSE \A k \in VF : a[k] = b[k]
Diff(a, b) == IF IsBad(a) \/ IsBad(b) THEN {<<"bad", IsBad(a), IsBad(b)>>} ELSE {<<k, a[k], b[k]>> : k \in {g \in VF : a[g] # b[g]}}
=============================================================================
