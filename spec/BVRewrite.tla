------------------------------ MODULE BVRewrite ------------------------------
(***************************************************************************)
(* Level 0: rewriting a file (README "Search and Replace", "Dry Mode").    *)
(*   - the line separator of a file is CRLF if it occurs anywhere, else CR *)
(*     if it occurs, else LF; the text is split on it and joined with it   *)
(*   - per configured pattern and per line the LEFTMOST match counts; a    *)
(*     match that overlaps (shares a code point with) a match found        *)
(*     earlier (patterns in configuration order, lines top down) is        *)
(*     suppressed: it is the same place                                    *)
(*   - every configured pattern must be found somewhere in the file        *)
(*   - every kept match is replaced by the new version rendered through    *)
(*     its pattern; nothing else changes                                   *)
(* Deviation s2 (repaired: off): each replacement was built from the OLD   *)
(* line, so of several matches on one line only the last one survived.     *)
(* Deviation s20 (repaired: off): a match that merely TOUCHED an earlier    *)
(* one (end of one = start of the other) was suppressed as well, and that  *)
(* occurrence stayed stale.                                                *)
(***************************************************************************)
EXTENDS BVVersion

CR == 13
LF == 10
HasCRLF(t) == \E q \in 1..(Len(t)-1) : t[q] = CR /\ t[q+1] = LF
HasCR(t)   == \E q \in 1..Len(t) : t[q] = CR
LineSep(t) == IF HasCRLF(t) THEN <<CR, LF>> ELSE IF HasCR(t) THEN <<CR>> ELSE <<LF>>
Lines(t)   == SplitBy(t, LineSep(t))

\* candidates in the order they are visited: pattern by pattern, line by line (0-based spans, end exclusive)
Candidates(lines, pats) ==
  LET rxs == [k \in 1..Len(pats) |-> Compile(pats[k])]
      one(k, i) == LET m == Search(rxs[k], lines[i]) IN
                   IF m.ok /\ m.end > m.start THEN << [pat |-> k, line |-> i, start |-> m.start - 1, end |-> m.end - 1] >> ELSE <<>>
      RECURSIVE LinesOf(_,_), Pats(_)
      LinesOf(k, i) == IF i > Len(lines) THEN <<>> ELSE one(k, i) \o LinesOf(k, i + 1)
      Pats(k) == IF k > Len(pats) THEN <<>> ELSE LinesOf(k, 1) \o Pats(k + 1)
  IN Pats(1)
\* a candidate is dropped if it overlaps any EARLIER candidate of its line (dropped ones included); spans are 0-based, end exclusive
Overlaps(a, b, touch) == a.line = b.line /\ (IF touch THEN a.start <= b.end /\ a.end >= b.start ELSE a.start < b.end /\ a.end > b.start)
Kept(cs, touch) == LET marked == [q \in 1..Len(cs) |-> [c |-> cs[q], keep |-> ~\E r \in 1..(q-1) : Overlaps(cs[q], cs[r], touch)]]
                sel == SelectSeq(marked, LAMBDA x : x.keep)
            IN [q \in 1..Len(sel) |-> sel[q].c]
KeptOfLine(kept, i) == SelectSeq(kept, LAMBDA c : c.line = i)

\* all kept spans of one line replaced (kept spans of a line never overlap)
ReplaceLine(line, ms, texts) ==
  LET RECURSIVE Go(_,_)
      Go(ln, rest) == IF rest = {} THEN ln
                      ELSE LET m == CHOOSE x \in rest : \A y \in rest : x.start >= y.start
                           IN Go(SubSeq(ln, 1, m.start) \o texts[m.pat] \o SubSeq(ln, m.end + 1, Len(ln)), rest \ {m})
  IN Go(line, {ms[q] : q \in 1..Len(ms)})
ReplaceLineLastWins(line, ms, texts) ==
  IF ms = <<>> THEN line ELSE LET m == ms[Len(ms)] IN SubSeq(line, 1, m.start) \o texts[m.pat] \o SubSeq(line, m.end + 1, Len(line))

NoPatternMatch(missing) == [ok |-> FALSE, missing |-> missing]
\* dv: the deviations in force, a record with the fields s2 and s20
Rewrite(text, pats, v, dv) ==
  LET sep == LineSep(text) lines == SplitBy(text, sep)
      kept == Kept(Candidates(lines, pats), dv.s20)
      found == {kept[q].pat : q \in 1..Len(kept)}
      texts == [k \in 1..Len(pats) |-> Render(v, pats[k])]
      newLines == [i \in 1..Len(lines) |-> IF dv.s2 THEN ReplaceLineLastWins(lines[i], KeptOfLine(kept, i), texts)
                                            ELSE ReplaceLine(lines[i], KeptOfLine(kept, i), texts)]
  IN IF found # 1..Len(pats) THEN NoPatternMatch((1..Len(pats)) \ found)
     ELSE [ok |-> TRUE, text |-> Join(newLines, sep), kept |-> kept, texts |-> texts]

(***************************************************************************)
(* The properties, stated on (old text, new text) independently of how     *)
(* Rewrite builds the result.                                              *)
(***************************************************************************)
\* text of the line between / around the kept spans, left to right
Segments(line, ms) ==
  LET RECURSIVE Go(_,_)
      Go(from, rest) == IF rest = {} THEN << SubSeq(line, from, Len(line)) >>
                        ELSE LET m == CHOOSE x \in rest : \A y \in rest : x.start <= y.start
                             IN << SubSeq(line, from, m.start) >> \o Go(m.end + 1, rest \ {m})
  IN Go(1, {ms[q] : q \in 1..Len(ms)})
SpansLeftToRight(ms) ==
  LET RECURSIVE Go(_)
      Go(rest) == IF rest = {} THEN <<>> ELSE LET m == CHOOSE x \in rest : \A y \in rest : x.start <= y.start IN <<m>> \o Go(rest \ {m})
  IN Go({ms[q] : q \in 1..Len(ms)})
\* can `line` be written as segs[1] ++ a1 ++ segs[2] ++ a2 ... ++ segs[n] for some texts a_i ?  (C04: only spans change)
RECURSIVE FitsFrom(_,_,_,_)
FitsFrom(line, segs, k, pos) ==      \* segs[k] must start at pos if k = 1, anywhere >= pos otherwise; the last one must end the line
  IF k = Len(segs)
  THEN LET s == segs[k] IN Len(line) - Len(s) + 1 >= pos /\ SubSeq(line, Len(line) - Len(s) + 1, Len(line)) = s
  ELSE \E q \in (IF k = 1 THEN {pos} ELSE pos..(Len(line) + 1)) :
          OccursAt(line, segs[k], q) /\ FitsFrom(line, segs, k + 1, q + Len(segs[k]))
OnlySpansChanged(oldLine, newLine, ms) == FitsFrom(newLine, Segments(oldLine, ms), 1, 1)
\* C03: every kept span shows the new version rendered through its pattern
AllOccurrencesUpdated(oldLine, newLine, ms, texts) ==
  LET segs == Segments(oldLine, ms) sp == SpansLeftToRight(ms)
      RECURSIVE Build(_)
      Build(k) == IF k > Len(sp) THEN segs[k] ELSE segs[k] \o texts[sp[k].pat] \o Build(k + 1)
  IN newLine = Build(1)

\* C03 stated on the new text alone: searching the new line with the pattern of a kept occurrence finds the new version rendered through that pattern
\* (the left-most match of a pattern on a line is its occurrence there, before and after the update)
ShowsNew(newLine, ms, pats, texts) ==
  \A q \in 1..Len(ms) : LET m == Search(Compile(pats[ms[q].pat]), newLine) IN m.ok /\ SubSeq(newLine, m.start, m.end - 1) = texts[ms[q].pat]

\* verdict on a recorded rewrite of one file: "ok" or the failing clause
RewriteClause(old, new, pats, v) ==
  LET r == Rewrite(old, pats, v, Dev) IN
  IF ~r.ok THEN "no-match-accepted"
  ELSE IF new = r.text THEN "ok"
  ELSE LET sep == LineSep(old) ol == SplitBy(old, sep) nl == SplitBy(new, sep) IN
       IF Len(ol) # Len(nl) \/ Join(nl, sep) # new THEN "c04:line-structure"
       ELSE IF \E i \in 1..Len(ol) : KeptOfLine(r.kept, i) = <<>> /\ nl[i] # ol[i] THEN "c04:unmatched-line-changed"
       ELSE IF \E i \in 1..Len(ol) : ~OnlySpansChanged(ol[i], nl[i], KeptOfLine(r.kept, i)) THEN "c04:text-outside-span-changed"
       ELSE "c03:occurrence-not-updated"

(***************************************************************************)
(* Unified diffs as structured hunks (C13).  A hunk is                     *)
(*   [a |-> first old line, na |-> old count, b, nb, body |-> <<[k, s]>>]  *)
(* with k in {" ", "-", "+"}.  ApplyHunks is strict: counts must be right, *)
(* context and "-" lines must equal the old file's lines.                  *)
(***************************************************************************)
BadDiff == [ok |-> FALSE]
ApplyHunks(lines, hunks) ==
  LET RECURSIVE Go(_,_,_)
      \* pos: next unread old line; out: lines produced so far
      Go(h, pos, out) ==
        IF h > Len(hunks) THEN [ok |-> TRUE, lines |-> out \o SubSeq(lines, pos, Len(lines))]
        ELSE LET hk == hunks[h]
                 start == IF hk.na = 0 THEN hk.a + 1 ELSE hk.a
                 olds == SelectSeq(hk.body, LAMBDA x : x.k # "+")
                 news == SelectSeq(hk.body, LAMBDA x : x.k # "-")
             IN IF start < pos \/ start + hk.na - 1 > Len(lines) \/ Len(olds) # hk.na \/ Len(news) # hk.nb THEN BadDiff
                ELSE IF \E q \in 1..Len(olds) : olds[q].s # lines[start + q - 1] THEN BadDiff
                ELSE Go(h + 1, start + hk.na, out \o SubSeq(lines, pos, start - 1) \o [q \in 1..Len(news) |-> news[q].s])
  IN Go(1, 1, <<>>)
=============================================================================
