------------------------------- MODULE BVStatus -------------------------------
(***************************************************************************)
(* Level 0/1: the working tree status and the dirty check (property C11).  *)
(* `git status --porcelain` (v1) prints one line per path:                 *)
(*      XY<blank>path            X = index status, Y = work tree status    *)
(*      XY<blank>old -> new      for renames / copies                      *)
(* in FIXED COLUMNS: X and Y may themselves be blanks ( " M", "M ", "??"). *)
(* `hg status` prints  C<blank>path  with a one-letter code.               *)
(* An update that commits is blocked iff                                   *)
(*   - without --allow-dirty: any path is not clean, except untracked      *)
(*     paths that carry no version pattern;                                *)
(*   - in any case: a path carrying a version pattern is not clean (for a  *)
(*     rename: either side).                                               *)
(***************************************************************************)
EXTENDS BVText

\* one porcelain line -> [xy |-> two code points, paths |-> sequence of paths]; hg lines have a one-letter code
ArrowAt(t) == LET o == Occurrences(t, <<32, 45, 62, 32>>) IN IF o = {} THEN 0 ELSE CHOOSE q \in o : \A r \in o : q <= r
ParseLine(line, tool) ==
  IF tool = "hg" THEN [xy |-> <<line[1], 32>>, paths |-> <<SubSeq(line, 3, Len(line))>>]
  ELSE LET xy == SubSeq(line, 1, 2) rest == SubSeq(line, 4, Len(line)) a == ArrowAt(rest) IN
       IF (xy[1] \in {82, 67} \/ xy[2] \in {82, 67}) /\ a > 0          \* R / C : old -> new
       THEN [xy |-> xy, paths |-> <<SubSeq(rest, 1, a - 1), SubSeq(rest, a + 4, Len(rest))>>]
       ELSE [xy |-> xy, paths |-> <<rest>>]
IsUntracked(e) == e.xy = <<63, 63>> \/ e.xy = <<63, 32>>
Entries(lines, tool) == [q \in 1..Len(lines) |-> ParseLine(lines[q], tool)]
Touches(e, paths) == \E q \in 1..Len(e.paths) : e.paths[q] \in paths
\* does the dirty check block a committing update
Blocks(lines, tool, patternPaths, allowDirty) ==
  LET es == Entries(lines, tool) IN
  \/ \E q \in 1..Len(es) : Touches(es[q], patternPaths)
  \/ (~allowDirty /\ \E q \in 1..Len(es) : ~IsUntracked(es[q]))
\* untracked files that carry no pattern never block
OnlyUntrackedOthers(lines, tool, patternPaths) ==
  LET es == Entries(lines, tool) IN \A q \in 1..Len(es) : IsUntracked(es[q]) /\ ~Touches(es[q], patternPaths)
=============================================================================
