------------------------------- MODULE BVStatus -------------------------------
(***************************************************************************)
(* Level 0/1: the working tree status and the dirty check (property C11).  *)
(* `git status --porcelain` (v1) prints one line per path:                 *)
(*      XY<blank>path            X = index status, Y = work tree status    *)
(*      XY<blank>old -> new      for renames / copies                      *)
(* in FIXED COLUMNS: X and Y may themselves be blanks ( " M", "M ", "??"). *)
(* A path that contains a blank, a quote, a backslash, a control or a      *)
(* non-ASCII byte is printed as a C string literal: "..." with \" \\ \t \n  *)
(* and \ooo octal escapes for bytes; paths are therefore BYTE sequences     *)
(* (UTF-8) in this module.  Deviation s22 (repaired: off): the quoted       *)
(* spelling was compared with the configured path as it stands.            *)
(* `hg status` prints  C<blank>path  with a one-letter code.               *)
(* An update that commits is blocked iff                                   *)
(*   - without --allow-dirty: any path is not clean, except untracked      *)
(*     paths that carry no version pattern;                                *)
(*   - in any case: a path carrying a version pattern is not clean (for a  *)
(*     rename: either side).                                               *)
(***************************************************************************)
EXTENDS BVText

\* the path a quoted field denotes
IsQuoted(p) == Len(p) >= 2 /\ p[1] = 34 /\ p[Len(p)] = 34
RECURSIVE Unesc(_)
Unesc(t) == IF t = <<>> THEN <<>>
            ELSE IF t[1] # 92 \/ Len(t) = 1 THEN <<t[1]>> \o Unesc(Tail(t))
            ELSE IF Len(t) >= 4 /\ t[2] \in 48..51 /\ t[3] \in 48..55 /\ t[4] \in 48..55
                 THEN <<(t[2] - 48) * 64 + (t[3] - 48) * 8 + (t[4] - 48)>> \o Unesc(SubSeq(t, 5, Len(t)))
            ELSE LET c == t[2]
                     v == CASE c = 110 -> 10 [] c = 116 -> 9 [] c = 114 -> 13 [] c = 97 -> 7 [] c = 98 -> 8 [] c = 102 -> 12 [] c = 118 -> 11 [] OTHER -> c
                 IN <<v>> \o Unesc(SubSeq(t, 3, Len(t)))
GitPath(p, s22) == IF IsQuoted(p) /\ ~s22 THEN Unesc(SubSeq(p, 2, Len(p) - 1)) ELSE p
\* the way git spells a path (bytes) in a porcelain line
NeedsQuote(b) == \E q \in 1..Len(b) : b[q] < 33 \/ b[q] > 126 \/ b[q] \in {34, 92}
Oct(n) == <<92, 48 + (n \div 64), 48 + ((n \div 8) % 8), 48 + (n % 8)>>
RECURSIVE Esc(_)
Esc(b) == IF b = <<>> THEN <<>> ELSE (CASE b[1] = 34 -> <<92, 34>> [] b[1] = 92 -> <<92, 92>> [] b[1] = 9 -> <<92, 116>> [] b[1] = 10 -> <<92, 110>>
                                        [] b[1] < 32 \/ b[1] > 126 -> Oct(b[1]) [] OTHER -> <<b[1]>>) \o Esc(Tail(b))
GitSpelling(b) == IF NeedsQuote(b) THEN <<34>> \o Esc(b) \o <<34>> ELSE b

\* one porcelain line -> [xy |-> two code points, paths |-> sequence of paths]; hg lines have a one-letter code
ArrowAt(t) == LET o == Occurrences(t, <<32, 45, 62, 32>>) IN IF o = {} THEN 0 ELSE CHOOSE q \in o : \A r \in o : q <= r
ParseLineD(line, tool, s22) ==
  IF tool = "hg" THEN [xy |-> <<line[1], 32>>, paths |-> <<SubSeq(line, 3, Len(line))>>]
  ELSE LET xy == SubSeq(line, 1, 2) rest == SubSeq(line, 4, Len(line)) a == ArrowAt(rest) IN
       IF (xy[1] \in {82, 67} \/ xy[2] \in {82, 67}) /\ a > 0          \* R / C : old -> new
       THEN [xy |-> xy, paths |-> <<GitPath(SubSeq(rest, 1, a - 1), s22), GitPath(SubSeq(rest, a + 4, Len(rest)), s22)>>]
       ELSE [xy |-> xy, paths |-> <<GitPath(rest, s22)>>]
ParseLine(line, tool) == ParseLineD(line, tool, FALSE)
IsUntracked(e) == e.xy = <<63, 63>> \/ e.xy = <<63, 32>>
EntriesD(lines, tool, s22) == [q \in 1..Len(lines) |-> ParseLineD(lines[q], tool, s22)]
Entries(lines, tool) == EntriesD(lines, tool, FALSE)
Touches(e, paths) == \E q \in 1..Len(e.paths) : e.paths[q] \in paths
\* does the dirty check block a committing update
BlocksD(lines, tool, patternPaths, allowDirty, s22) ==
  LET es == EntriesD(lines, tool, s22) IN
  \/ \E q \in 1..Len(es) : Touches(es[q], patternPaths)
  \/ (~allowDirty /\ \E q \in 1..Len(es) : ~IsUntracked(es[q]))
Blocks(lines, tool, patternPaths, allowDirty) == BlocksD(lines, tool, patternPaths, allowDirty, FALSE)
\* untracked files that carry no pattern never block
OnlyUntrackedOthers(lines, tool, patternPaths) ==
  LET es == Entries(lines, tool) IN \A q \in 1..Len(es) : IsUntracked(es[q]) /\ ~Touches(es[q], patternPaths)
=============================================================================
