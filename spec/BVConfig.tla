------------------------------- MODULE BVConfig -------------------------------
(***************************************************************************)
(* Level 1: configuration files (README "Configuration", `bumpver init`).  *)
(*                                                                         *)
(* Which file holds the configuration: among pycalver.toml, bumpver.toml,  *)
(* .bumpver.toml, pyproject.toml, setup.cfg (in this order) the first that *)
(* exists AND already holds a bumpver section with a current_version;      *)
(* otherwise the first that exists; otherwise bumpver.toml (to be created).*)
(* A layout gives each config-capable file a content class:                *)
(*   "absent" | "empty" | "unrelated" (valid content of its format without *)
(*   a bumpver section) | "section" (holds a usable bumpver configuration) *)
(***************************************************************************)
EXTENDS Naturals, Sequences, FiniteSets

Candidates == <<"pycalver.toml", "bumpver.toml", ".bumpver.toml", "pyproject.toml", "setup.cfg">>
Classes == {"absent", "empty", "unrelated", "section"}
Exists(lay, f) == lay[f] # "absent"
FirstSuch(lay, Pred(_)) == LET idx == {q \in 1..Len(Candidates) : Pred(Candidates[q])} IN
                           IF idx = {} THEN "" ELSE Candidates[CHOOSE q \in idx : \A r \in idx : q <= r]
PickConfigFile(lay) ==
  LET a == FirstSuch(lay, LAMBDA f : lay[f] = "section")
      b == FirstSuch(lay, LAMBDA f : Exists(lay, f)) IN
  IF a # "" THEN a ELSE IF b # "" THEN b ELSE "bumpver.toml"
Format(f) == IF f = "setup.cfg" THEN "cfg" ELSE "toml"

(***************************************************************************)
(* `init [--dry]`, `show`, seen from outside, for a layout:                *)
(*   init --dry : exits 0 and writes nothing (exits 1 when the picked file *)
(*                is already configured)                                   *)
(*   init       : appends a configuration to the picked file (creating it  *)
(*                if absent); prior content stays as a prefix; refuses     *)
(*                (exit 1, nothing changes) when already configured        *)
(*   show       : afterwards reads the configuration back from that file   *)
(*   init again : refuses, changes nothing                                 *)
(***************************************************************************)
InitExpectation(lay) ==
  LET t == PickConfigFile(lay) configured == lay[t] = "section" IN
  [target |-> t,
   dry_exit0 |-> ~configured, init_exit0 |-> ~configured,
   written |-> IF configured THEN {} ELSE {t},
   show_exit0 |-> TRUE, second_exit0 |-> FALSE]
\* after a successful init the picked file is configured and stays the pick
AfterInit(lay) == [lay EXCEPT ![PickConfigFile(lay)] = "section"]

(***************************************************************************)
(* What a configuration MEANS (property C18).  An abstract configuration A *)
(* is a record                                                             *)
(*   version, pattern              texts (here: opaque values)             *)
(*   commit_message, tag_message, tag_scope, pre, post   a value or Absent *)
(*   commit, tag, push             "absent" | "true" | "false"             *)
(*   files                         sequence of <<path, <<patterns>>>>      *)
(* Effective(A) is its one meaning, whatever syntax it is written in.      *)
(***************************************************************************)
Absent == "absent"
Default(x, d) == IF x = Absent THEN d ELSE x
Bool3(x) == x = "true"                    \* absent and false mean false
DefaultCommitMessage == "bump version to {new_version}"
DefaultTagMessage    == "{new_version}"
Scopes == {"default", "global", "branch"}
Invalid == [valid |-> FALSE]
Effective(A) ==
  LET c == Bool3(A.commit) t == Bool3(A.tag) p == Bool3(A.push) sc == Default(A.tag_scope, "default") IN
  IF (t \/ p) /\ ~c THEN Invalid                       \* tag and push require commit
  ELSE IF sc \notin Scopes THEN Invalid
  ELSE [valid |-> TRUE, version |-> A.version, pattern |-> A.pattern,
        commit_message |-> Default(A.commit_message, DefaultCommitMessage), tag_message |-> Default(A.tag_message, DefaultTagMessage),
        tag_scope |-> sc, pre |-> Default(A.pre, ""), post |-> Default(A.post, ""),
        commit |-> c, tag |-> t, push |-> p,
        files |-> UNION {{<<A.files[q][1], A.files[q][2][r]>> : r \in 1..Len(A.files[q][2])} : q \in 1..Len(A.files)}]

\* how each syntax spells a boolean, and what its reader makes of a spelling
IniTrue  == {"yes", "true", "1", "on", "Yes", "TRUE", "On", "True"}
IniFalse == {"no", "false", "0", "off", "No", "FALSE", "Off", "False"}
ReadIniBool(sp) == sp \in IniTrue
ReadTomlBool(sp) == sp = "true"
Spellings(fmt, b) == IF fmt = "cfg" THEN (IF b THEN IniTrue ELSE IniFalse) ELSE {IF b THEN "true" ELSE "false"}
ReadBool(fmt, sp) == IF fmt = "cfg" THEN ReadIniBool(sp) ELSE ReadTomlBool(sp)
=============================================================================
