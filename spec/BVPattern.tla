------------------------------ MODULE BVPattern ------------------------------
(***************************************************************************)
(* Level 0: the pattern mini-language.                                     *)
(*   pattern ::= sequence of nodes                                         *)
(*   node    ::= [t |-> "lit",  s |-> text]        literal text            *)
(*             | [t |-> "part", p |-> NAME]        a part of BVParts       *)
(*             | [t |-> "opt",  body |-> pattern]  optional group [ ... ]  *)
(*             | [t |-> "bol"] | [t |-> "eol"]     ^ / $ as first / last   *)
(*                                                 symbol of a file pattern*)
(* Compile gives the recogniser (every literal code point means itself),   *)
(* PartsIn the left-to-right part order that the bump rules refer to.      *)
(***************************************************************************)
EXTENDS BVParts

L(s)  == [t |-> "lit", s |-> s]
Pt(p) == [t |-> "part", p |-> p]
Op(b) == [t |-> "opt", body |-> b]
BOL   == [t |-> "bol"]
EOL   == [t |-> "eol"]

RECURSIVE CompileSeq(_), PartsIn(_)
CompileNode(n) == CASE n.t = "lit"  -> Lit(n.s)
                    [] n.t = "bol"  -> Bol [] n.t = "eol" -> Eol
                    [] n.t = "part" -> Grp(PartField(n.p), PartRx(n.p))
                    [] n.t = "opt"  -> Opt(CompileSeq(n.body))
CompileSeq(ns) == Cat([q \in 1..Len(ns) |-> CompileNode(ns[q])])
Compile(P) == CompileSeq(P)

\* parts of a pattern in left-to-right order (descending into groups)
PartsIn(ns) == IF ns = <<>> THEN <<>>
               ELSE (CASE ns[1].t = "part" -> <<ns[1].p>> [] ns[1].t = "opt" -> PartsIn(ns[1].body) [] OTHER -> <<>>) \o PartsIn(Tail(ns))
PartSet(P)    == {PartsIn(P)[q] : q \in 1..Len(PartsIn(P))}
FieldOrder(P) == LET ps == PartsIn(P) IN [q \in 1..Len(ps) |-> PartField(ps[q])]
FieldSet(P)   == {FieldOrder(P)[q] : q \in 1..Len(FieldOrder(P))}
HasPart(P, names) == PartSet(P) \cap names # {}

\* the literal text of a pattern without groups or parts (used for C07)
IsLiteralPattern(P) == \A q \in 1..Len(P) : P[q].t = "lit"
LiteralText(P) == Flatten([q \in 1..Len(P) |-> P[q].s])

(***************************************************************************)
(* README "Pattern Usage": pairing a calendar year with the ISO week, or   *)
(* an ISO year with a non-ISO week, is rejected (property C14).            *)
(***************************************************************************)
CoherentWeekPattern(P) ==
  LET yy == HasPart(P, {"YYYY","YY","0Y"}) ww == HasPart(P, {"WW","0W","UU","0U"})
      gg == HasPart(P, {"GGGG","GG","0G"}) vv == HasPart(P, {"VV","0V"})
  IN ~(yy /\ vv) /\ ~(gg /\ ww)
=============================================================================
