------------------------------ MODULE BVDerived ------------------------------
(***************************************************************************)
(* Level 0: the derived search pattern for `{pep440_version}` and what the *)
(* text written for it must satisfy (property C15).                        *)
(* README "Normalization Caveats": the prefix v is removed, separators     *)
(* other than "." are dropped, leading zeros in delimited parts are        *)
(* truncated (zero-padded parts at the start or after a "." are replaced   *)
(* by their unpadded counterpart), tags take their short form, and the tag *)
(* with its number comes last: [PYTAGNUM].                                 *)
(***************************************************************************)
EXTENDS BVResolve

AlNumDotBang(c) == IsDigit(c) \/ IsLowerAZ(c) \/ IsUpperAZ(c) \/ c = 46 \/ c = 33
CleanLit(s) == SelectSeq(s, AlNumDotBang)

\* step 1+2: drop the v prefix, keep only letters, digits, "." and "!" of literal text
RECURSIVE CleanSeq(_)
CleanNode(n) == CASE n.t = "lit" -> (IF CleanLit(n.s) = <<>> THEN <<>> ELSE <<L(CleanLit(n.s))>>)
                  [] n.t = "opt" -> <<Op(CleanSeq(n.body))>>
                  [] n.t \in {"bol", "eol"} -> <<>>
                  [] OTHER -> <<n>>
CleanSeq(ns) == IF ns = <<>> THEN <<>> ELSE CleanNode(ns[1]) \o CleanSeq(Tail(ns))
DropV(ns) == IF ns # <<>> /\ ns[1].t = "lit" /\ ns[1].s[1] = 118
             THEN (IF Len(ns[1].s) = 1 THEN Tail(ns) ELSE <<L(Tail(ns[1].s))>> \o Tail(ns)) ELSE ns

\* step 3: substitute parts; `prev` is the last symbol before the node, brackets not counted (0 = start of pattern)
LastOf(s, prev) == IF s = <<>> THEN prev ELSE s[Len(s)]
RECURSIVE SubstSeq(_,_)
\* returns <<new nodes, last symbol>>
SubstSeq(ns, prev) ==
  IF ns = <<>> THEN <<<<>>, prev>>
  ELSE LET n == ns[1] IN
       IF n.t = "lit" THEN LET r == SubstSeq(Tail(ns), LastOf(n.s, prev)) IN << <<n>> \o r[1], r[2] >>
       ELSE IF n.t = "part" THEN
            LET delimited == prev = 0 \/ prev = 46
                q == IF n.p = "TAG" THEN "PYTAG" ELSE IF delimited THEN Pep440Subst(n.p) ELSE n.p
                r == SubstSeq(Tail(ns), 1)           \* after a part the last symbol is not a "."
            IN << <<Pt(q)>> \o r[1], r[2] >>
       ELSE LET b == SubstSeq(n.body, prev)
                r == SubstSeq(Tail(ns), b[2]) IN << <<Op(b[1])>> \o r[1], r[2] >>

\* step 4: PYTAG directly followed by NUM, as the last (optional) part
RECURSIVE HasTagNum(_), StripTagNum(_)
HasTagNum(ns) == \E q \in 1..Len(ns) : \/ (q < Len(ns) /\ ns[q].t = "part" /\ ns[q].p = "PYTAG" /\ ns[q+1].t = "part" /\ ns[q+1].p = "NUM")
                                       \/ (ns[q].t = "opt" /\ HasTagNum(ns[q].body))
StripNode(n) == IF n.t = "part" /\ n.p \in {"PYTAG", "NUM"} THEN <<>>
                ELSE IF n.t = "opt" THEN (IF StripTagNum(n.body) = <<>> THEN <<>> ELSE <<Op(StripTagNum(n.body))>>)
                ELSE <<n>>
StripTagNum(ns) == IF ns = <<>> THEN <<>> ELSE StripNode(ns[1]) \o StripTagNum(Tail(ns))

Pep440Pattern(P) ==
  LET a == SubstSeq(CleanSeq(DropV(P)), 0)[1] IN
  IF HasTagNum(a) THEN a ELSE StripTagNum(a) \o <<Op(<<Pt("PYTAG"), Pt("NUM")>>)>>

\* Known gap of the rules (finding S18): a separator that is not "." is dropped, so two numeric parts it separated are
\* glued together in the derived pattern (vYYYY.INC1[-PATCH]: v2007.1-9 is PEP 440 2007.1.post9, the derived text is 2007.19)
RECURSIVE FlatTokens(_)
FlatTokens(ns) == IF ns = <<>> THEN <<>> ELSE (IF ns[1].t = "opt" THEN FlatTokens(ns[1].body) ELSE <<ns[1]>>) \o FlatTokens(Tail(ns))
IsNumericPart(n) == n.t = "part" /\ n.p \notin {"TAG", "PYTAG"}
GluedParts(P) == LET ts == FlatTokens(P) IN
  \E q \in 1..(Len(ts) - 2) : IsNumericPart(ts[q]) /\ ts[q+1].t = "lit" /\ CleanLit(ts[q+1].s) = <<>> /\ IsNumericPart(ts[q+2])

(***************************************************************************)
(* The predicates of C15 on the texts themselves.                          *)
(*   t : the version text ({version})   u : the text written for           *)
(*   {pep440_version}   DP: the derived pattern in use   v : the state     *)
(***************************************************************************)
RawRelease(text) == LET m == Match(PEP440, Lower(Strip(text, WS))) IN IF m.ok THEN m.caps.release ELSE <<>>
\* the tag segments in short form, each followed by its number; a "." may stand before a segment (canonical PEP 440 puts one before
\* post and dev; the statement asks only for "short form followed by its number")
Seg(has, letters, num, dot) == IF has THEN (IF dot THEN <<46>> ELSE <<>>) \o letters \o num ELSE <<>>
Suffixes(a) == { Seg(a.pre.has, IF a.pre.has THEN a.pre.v[1] ELSE <<>>, IF a.pre.has THEN a.pre.v[2] ELSE <<>>, d1)
                 \o Seg(a.post.has, <<112,111,115,116>>, IF a.post.has THEN a.post.v ELSE <<>>, d2)
                 \o Seg(a.dev.has, <<100,101,118>>, IF a.dev.has THEN a.dev.v ELSE <<>>, d3) : d1 \in BOOLEAN, d2 \in BOOLEAN, d3 \in BOOLEAN }
\* no v prefix; every dot-separated numeric component after the first without leading zeros; short tag followed by its number
NormalForm(u) ==
  LET a == ParseVer(u) IN
  /\ a.pep /\ ~a.local.has
  /\ LET rel == RawRelease(u) comps == SplitOn(rel, {46}) IN
     /\ \A k \in 2..Len(comps) : comps[k] = DropZeros(comps[k])
     /\ \E sfx \in Suffixes(a) : u = (IF a.epoch # <<48>> THEN a.epoch \o <<33>> ELSE <<>>) \o rel \o sfx
SameVersion(u, t) ==
  LET a == ParseVer(u) b == ParseVer(t) IN
  /\ a.pep /\ b.pep /\ PepCmp(a, b) = 0
  /\ a.pre = b.pre /\ a.post = b.post /\ a.dev = b.dev
C15Clause(v, P, DP, t, u, printed, accD) ==
  IF ~ParseVer(t).pep THEN "ok:version-not-pep440"
  ELSE IF u # Render(v, DP) THEN "rendered-by-derived-pattern"
  ELSE IF ~ParseVer(u).pep THEN "written-text-not-pep440"
  ELSE IF ~SameVersion(u, t) THEN "not-the-same-version"
  ELSE IF ~FirstMatchSpans(Compile(DP), u) \/ ~accD THEN "not-accepted-by-derived-pattern"
  ELSE IF VerCmp(u, printed) # 0 \/ ~SameVersion(u, printed) THEN "differs-from-printed-pep440"
  ELSE IF ~NormalForm(u) THEN "not-in-normal-form"
  ELSE "ok"
=============================================================================
