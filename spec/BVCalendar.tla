---- MODULE BVCalendar ----
EXTENDS Integers, Sequences

IsLeap(y) == (y % 4 = 0 /\ y % 100 # 0) \/ y % 400 = 0
\* days before Jan 1 of year y; ordinal 1 = 0001-01-01 (a Monday)
DaysBeforeYear(y) == LET z == y - 1 IN z * 365 + z \div 4 - z \div 100 + z \div 400
DIM == <<31,28,31,30,31,30,31,31,30,31,30,31>>
DaysInMonth(y, m) == IF m = 2 /\ IsLeap(y) THEN 29 ELSE DIM[m]
RECURSIVE DaysBeforeMonth(_,_)
DaysBeforeMonth(y, m) == IF m = 1 THEN 0 ELSE DaysBeforeMonth(y, m-1) + DaysInMonth(y, m-1)
ValidDate(y, m, d) == y \in 1..9999 /\ m \in 1..12 /\ d >= 1 /\ d <= DaysInMonth(y, m)
Ordinal(y, m, d) == DaysBeforeYear(y) + DaysBeforeMonth(y, m) + d
Weekday(n) == (n + 6) % 7          \* Monday = 0 .. Sunday = 6
YearOf(n) == LET RECURSIVE Up(_)
                 Up(y) == IF DaysBeforeYear(y + 1) < n THEN Up(y + 1) ELSE y
             IN Up((n - 1) \div 366 + 1)
RECURSIVE MonthDay(_,_,_)
MonthDay(y, doy, m) == IF doy <= DaysInMonth(y, m) THEN <<m, doy>> ELSE MonthDay(y, doy - DaysInMonth(y, m), m + 1)
Doy(n) == n - DaysBeforeYear(YearOf(n))
WeekW(n) == (Doy(n) + 6 - Weekday(n)) \div 7                     \* %W  Monday first, partial first week = 0
WeekU(n) == (Doy(n) + 6 - ((Weekday(n) + 1) % 7)) \div 7         \* %U  Sunday first
IsoThursday(n) == n - Weekday(n) + 3
IsoYear(n) == YearOf(IsoThursday(n))                             \* %G
IsoWeek(n) == (Doy(IsoThursday(n)) - 1) \div 7 + 1               \* %V
Quarter(m) == (m - 1) \div 3 + 1
CalInfo(n) == LET y == YearOf(n) md == MonthDay(y, Doy(n), 1) IN
  [year_y |-> y, year_g |-> IsoYear(n), quarter |-> Quarter(md[1]), month |-> md[1], dom |-> md[2],
   doy |-> Doy(n), week_w |-> WeekW(n), week_u |-> WeekU(n), week_v |-> IsoWeek(n)]
CalFields == <<"year_y","year_g","quarter","month","dom","doy","week_w","week_u","week_v">>
====
