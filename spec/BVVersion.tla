------------------------------ MODULE BVVersion ------------------------------
(***************************************************************************)
(* Level 0: version states, reading (ParseVersion), writing (Render) and   *)
(* bumping (Incr operational, BumpOK declarative) for v2 patterns.         *)
(*                                                                         *)
(* A version state is a record over                                        *)
(*   year_y year_g quarter month dom doy week_w week_u week_v   (NA = -1   *)
(*   when the version text does not determine the field),                  *)
(*   major minor patch num inc0 inc1 (naturals), bid (digit sequence),     *)
(*   tag, pytag (names).                                                   *)
(***************************************************************************)
EXTENDS BVPattern, BVCalendar, BVLexId, BVDeviations

NA == -1    \* calendar field not known
CalFieldSet == {"year_y","year_g","quarter","month","dom","doy","week_w","week_u","week_v"}
VFields == CalFieldSet \cup {"major","minor","patch","bid","tag","pytag","num","inc0","inc1"}

(***************************************************************************)
(* Rendering (README "Optional parts"): the pattern is a tree of groups;   *)
(* an optional group is omitted iff it holds at least one part and all     *)
(* parts in it (recursively) are zero; literal text in a kept group is     *)
(* output as is.  D_S12: in the implementation the ROOT is treated like a  *)
(* group too (a pattern whose parts are all zero renders as the empty      *)
(* text, literal prefix included).                                         *)
(***************************************************************************)
RECURSIVE RenderSeq(_,_), AllZero(_,_)
AllZero(ns, v) == LET ps == PartsIn(ns) IN ps # <<>> /\ \A q \in 1..Len(ps) : IsZero(ps[q], v)
RenderNode(n, v) == CASE n.t = "lit" -> n.s [] n.t = "part" -> Fmt(n.p, v) [] n.t \in {"bol","eol"} -> <<>>
                      [] n.t = "opt" -> IF AllZero(n.body, v) \/ PartsIn(n.body) = <<>> THEN <<>> ELSE RenderSeq(n.body, v)
RenderSeq(ns, v) == IF ns = <<>> THEN <<>> ELSE RenderNode(ns[1], v) \o RenderSeq(Tail(ns), v)
\* as the README has it (only bracketed groups are optional)
RenderDoc(v, P) == RenderSeq(P, v)
\* with deviation s12 the root is dropped like a group when all its parts are zero
RenderD(v, P, s12) == IF s12 /\ AllZero(P, v) THEN <<>> ELSE RenderSeq(P, v)
Render(v, P) == RenderD(v, P, Dev.s12)

(***************************************************************************)
(* Reading a version text: captured groups -> state.                       *)
(*  - two-digit years are 2000-based; a full date (year + month + day, or  *)
(*    year + day of year) determines all nine calendar fields; otherwise   *)
(*    only the captured fields are known; a text without any calendar part *)
(*    takes today's calendar                                               *)
(*  - TAG and PYTAG determine each other; absent -> final                   *)
(*  - absent BUILD -> 1000, absent INC1 -> 1, other absent numbers -> 0    *)
(***************************************************************************)
Cap(c, f) == IF f \in DOMAIN c THEN c[f] ELSE <<>>      \* <<>> : group absent (also: optional group not taken)
Num(c, f, dflt) == IF Cap(c, f) = <<>> THEN dflt ELSE NatOf(Cap(c, f))
Year4(y) == IF y # NA /\ y < 1000 THEN y + 2000 ELSE y
Known(x) == x # NA /\ x # 0
Bad(why) == [bad |-> TRUE, why |-> why]
IsBad(v) == "bad" \in DOMAIN v

StateOf(c, today) ==
  LET yy == Year4(Num(c, "year_y", NA))  yg == Year4(Num(c, "year_g", NA))
      doy0 == Num(c, "doy", NA) m0 == Num(c, "month", NA) d0 == Num(c, "dom", NA)
      ww == Num(c, "week_w", NA) wu == Num(c, "week_u", NA) wv == Num(c, "week_v", NA)
      fromDoy == Known(yy) /\ Known(doy0)
      doyOK   == doy0 <= (IF IsLeap(yy) THEN 366 ELSE 365)
      md == IF fromDoy /\ doyOK THEN LET n == DaysBeforeYear(yy) + doy0 IN <<CalInfo(n).month, CalInfo(n).dom>> ELSE <<m0, d0>>
      hasDate == Known(yy) /\ Known(md[1]) /\ Known(md[2])
      \* a text that shows no calendar part at all takes today's calendar
      nothing == \A x \in {yy, yg, m0, d0, doy0, ww, wu, wv} : x = NA
      cal == IF fromDoy /\ ~doyOK THEN Bad("impossible-date")
             ELSE IF hasDate THEN (IF ValidDate(yy, md[1], md[2]) THEN CalInfo(Ordinal(yy, md[1], md[2])) ELSE Bad("impossible-date"))
             ELSE IF nothing THEN CalInfo(today)
             ELSE [year_y |-> yy, year_g |-> yg, quarter |-> NA, month |-> md[1], dom |-> md[2], doy |-> doy0, week_w |-> ww, week_u |-> wu, week_v |-> wv]
      q0 == Num(c, "quarter", NA)
      tagw == Cap(c, "tag") ptagw == Cap(c, "pytag")
      tag0 == IF tagw # <<>> THEN WordToName(tagw, TagWords) ELSE IF ptagw # <<>> THEN TagOfPyTag(WordToName(ptagw, PyTagWords)) ELSE "final"
      pytag0 == IF ptagw # <<>> THEN WordToName(ptagw, PyTagWords) ELSE PyTagOfTag[tag0]
  IN IF IsBad(cal) THEN cal ELSE
     [year_y |-> cal.year_y, year_g |-> cal.year_g,
      quarter |-> IF q0 # NA THEN q0 ELSE IF Known(cal.month) THEN Quarter(cal.month) ELSE NA,
      month |-> cal.month, dom |-> cal.dom, doy |-> cal.doy, week_w |-> cal.week_w, week_u |-> cal.week_u, week_v |-> cal.week_v,
      major |-> Num(c, "major", 0), minor |-> Num(c, "minor", 0), patch |-> Num(c, "patch", 0),
      bid |-> IF Cap(c, "bid") = <<>> THEN <<49,48,48,48>> ELSE Cap(c, "bid"),
      tag |-> tag0, pytag |-> pytag0,
      num |-> Num(c, "num", 0), inc0 |-> Num(c, "inc0", 0), inc1 |-> IF Num(c, "inc1", 0) = 0 THEN 1 ELSE Num(c, "inc1", 0)]

\* bumpver reads a version with re.match and demands that the FIRST match spans the text
ParseVersion(text, P, today) ==
  LET m == Match(Compile(P), text) IN
  IF ~m.ok THEN Bad("nomatch")
  ELSE IF m.end # Len(text) + 1 THEN Bad("incomplete")
  ELSE StateOf(m.caps, today)
IsValid(text, P, today) == ~IsBad(ParseVersion(text, P, today))

SameState(a, b) == IF IsBad(a) \/ IsBad(b) THEN IsBad(a) = IsBad(b) ELSE \A f \in VFields : a[f] = b[f]
DiffFields(a, b) == IF IsBad(a) \/ IsBad(b) THEN {<<"bad", IsBad(a), IsBad(b)>>} ELSE {<<f, a[f], b[f]>> : f \in {g \in VFields : a[g] # b[g]}}

(***************************************************************************)
(* Bumping, step by step in the order the implementation performs it.      *)
(***************************************************************************)
\* left > right on the calendar fields both know, in the fixed field order
RECURSIVE CalCmpFrom(_,_,_)
CalCmpFrom(l, r, q) == IF q > Len(CalFields) THEN 0
                       ELSE LET f == CalFields[q] IN
                            IF l[f] = NA \/ r[f] = NA THEN CalCmpFrom(l, r, q+1)
                            ELSE IF l[f] > r[f] THEN 1 ELSE IF l[f] < r[f] THEN -1 ELSE CalCmpFrom(l, r, q+1)
CalGt(l, r) == CalCmpFrom(l, r, 1) = 1
WithCal(v, cal) == [f \in DOMAIN v |-> IF f \in CalFieldSet THEN cal[f] ELSE v[f]]
\* --pin-date: keep what the version knows, today's value otherwise.
\* zeroIsUnknown = TRUE is deviation D_S6 (a parsed 0 - week 0 - is replaced by today's value)
Keep(x, dflt, zeroIsUnknown) == IF x = NA \/ (zeroIsUnknown /\ x = 0) THEN dflt ELSE x
PinnedCal(v, today, z) == LET t == CalInfo(today) IN [f \in CalFieldSet |-> Keep(v[f], t[f], z)]

InitialValue == [major |-> 0, minor |-> 0, patch |-> 0, num |-> 0, inc0 |-> 0, inc1 |-> 1]
RECURSIVE FirstDiff(_,_,_,_)
FirstDiff(F, a, b, q) == IF q > Len(F) THEN 0 ELSE IF a[F[q]] # b[F[q]] THEN q ELSE FirstDiff(F, a, b, q+1)
ResetRight(P, old, cur) ==
  LET F == FieldOrder(P) k0 == FirstDiff(F, old, cur, 1)
      R == IF k0 = 0 THEN {} ELSE {F[q] : q \in (k0+1)..Len(F)} \cap DOMAIN InitialValue
  IN [f \in DOMAIN cur |-> IF f \in R THEN InitialValue[f] ELSE cur[f]]

NoTag == "none"
Flags == [major: BOOLEAN, minor: BOOLEAN, patch: BOOLEAN, tag_num: BOOLEAN, pin_increments: BOOLEAN, pin_date: BOOLEAN, tag: {NoTag} \cup TagNames]
Numeric(c0, f) ==
  LET c1 == [c0 EXCEPT !.major = @ + (IF f.major THEN 1 ELSE 0), !.minor = @ + (IF f.minor THEN 1 ELSE 0),
                       !.patch = @ + (IF f.patch THEN 1 ELSE 0), !.num = @ + (IF f.tag_num THEN 1 ELSE 0)]
      c2 == IF f.tag = NoTag THEN c1
            ELSE [c1 EXCEPT !.num = IF f.tag # c1.tag THEN 0 ELSE @, !.tag = f.tag, !.pytag = PyTagOfTag[f.tag]]
      c3 == IF f.pin_increments THEN c2 ELSE [c2 EXCEPT !.inc0 = @ + 1, !.inc1 = @ + 1]
  IN [c3 EXCEPT !.bid = NextBuild(@)]

None == <<0>>   \* "no new version" (a text is a sequence of code points >= 1, so <<0>> is not a text)
Raises == <<0, 0>>  \* the implementation raises instead of answering (BUILD overflow)
\* dev: a record of booleans naming the implementation's deviations that are modelled
\*   s6 : --pin-date treats a parsed 0 as unknown         s7 : --tag final --tag-num on a final version is not refused
Incr(oldtext, P, f, date, today, dev) ==
  IF ~CoherentWeekPattern(P) THEN None ELSE
  LET v == ParseVersion(oldtext, P, today) IN
  IF IsBad(v) THEN None ELSE
  LET cal == IF f.pin_date THEN PinnedCal(v, today, dev.s6) ELSE CalInfo(date)
      c0  == IF CalGt(v, cal) THEN v ELSE WithCal(v, cal)
  IN IF f.tag_num /\ c0.tag = "final" /\ (f.tag = NoTag \/ (~dev.s7 /\ f.tag = "final")) THEN None ELSE
     IF AllNines(IF Below1000(c0.bid) THEN Plus1000(c0.bid) ELSE c0.bid) THEN Raises ELSE
  LET c2 == ResetRight(P, v, Numeric(c0, f))
      t  == RenderD(c2, P, dev.s12)
  IN IF t = <<>> \/ t = oldtext THEN None ELSE t
AsDoc  == [s2 |-> FALSE, s6 |-> FALSE, s7 |-> FALSE, s12 |-> FALSE, s14 |-> FALSE, s16 |-> FALSE]

(***************************************************************************)
(* The README bump rules, one clause per part, independent of how Incr     *)
(* computes them (property C05).  old/new are states read back from the    *)
(* old and the new text; F = FieldOrder(P).                                *)
(***************************************************************************)
Resettable == DOMAIN InitialValue
LeftChanged(F, k, a, b) == \E j \in 1..(k-1) : a[F[j]] # b[F[j]]
ExpectedField(fld, a, f, cal, future) ==
  CASE fld \in CalFieldSet -> (IF f.pin_date \/ future THEN a[fld] ELSE cal[fld])
    [] fld = "major" -> a.major + (IF f.major THEN 1 ELSE 0)
    [] fld = "minor" -> a.minor + (IF f.minor THEN 1 ELSE 0)
    [] fld = "patch" -> a.patch + (IF f.patch THEN 1 ELSE 0)
    [] fld = "tag"   -> (IF f.tag = NoTag THEN a.tag ELSE f.tag)
    [] fld = "pytag" -> PyTagOfTag[IF f.tag = NoTag THEN a.tag ELSE f.tag]
    [] fld = "num"   -> (IF f.tag # NoTag /\ f.tag # a.tag THEN 0 ELSE a.num + (IF f.tag_num THEN 1 ELSE 0))
    [] fld = "inc0"  -> a.inc0 + (IF f.pin_increments THEN 0 ELSE 1)
    [] fld = "inc1"  -> a.inc1 + (IF f.pin_increments THEN 0 ELSE 1)
    [] fld = "bid"   -> NextBuild(a.bid)
\* the clause that fails first, or "ok"
BumpClause(F, old, new, f, cal, future) ==
  LET badk == {k \in 1..Len(F) :
                 IF F[k] \in Resettable /\ LeftChanged(F, k, old, new) THEN new[F[k]] # InitialValue[F[k]]
                 ELSE IF F[k] = "bid" THEN ~(IntLess(old.bid, new.bid) /\ new.bid = NextBuild(old.bid))
                 ELSE new[F[k]] # ExpectedField(F[k], old, f, cal, future)}
  IN IF badk = {} THEN "ok" ELSE LET k == CHOOSE x \in badk : \A y \in badk : x <= y IN F[k]
BumpOK(F, old, new, f, cal, future) == BumpClause(F, old, new, f, cal, future) = "ok"
\* does any rule prescribe a change of a part the pattern shows?  (refusals must be explained by this)
ExpectsChange(F, old, f, cal, future) == \E k \in 1..Len(F) : F[k] = "bid" \/ ExpectedField(F[k], old, f, cal, future) # old[F[k]]
\* calendar parts never move backwards (on the fields the pattern shows)
CalNotBackwards(F, old, new) == ~CalGt([x \in CalFieldSet |-> IF x \in {F[q] : q \in 1..Len(F)} THEN old[x] ELSE NA],
                                       [x \in CalFieldSet |-> IF x \in {F[q] : q \in 1..Len(F)} THEN new[x] ELSE NA])
=============================================================================
