------------------------------- MODULE MC_C01 -------------------------------
(***************************************************************************)
(* C01 - a successful bump yields a valid, strictly greater version.       *)
(* The front half of `test` / `update` as a small state machine:           *)
(*    Start -> Candidate (automatic increment | --set-version target)      *)
(*          -> GateAccept | GateReject -> (Write | DryReturn) -> Done      *)
(* Files are abstract: `written` says whether any project file changed.    *)
(* Candidates for --set-version: greater, equal, PEP 440-equal but         *)
(* textually different, lower, malformed, empty.                           *)
(***************************************************************************)
EXTENDS BVResolve, TLC, Gen_C05

VARIABLES p, d, v, pc, start, cand, how, exit, announced, written, dry
vars == <<p, d, v, pc, start, cand, how, exit, announced, written, dry>>
NoV == [none |-> TRUE]
Base(day) == CalInfo(day) @@ [major |-> 0, minor |-> 0, patch |-> 0, bid |-> <<49,48,48,49>>, tag |-> "final", pytag |-> "", num |-> 0, inc0 |-> 0, inc1 |-> 1]
StatesFor(P, day) ==
  LET F == FieldSet(P) N(fld) == IF fld \in F THEN GenNums ELSE {0} IN
  LET All == { [Base(day) EXCEPT !.major = mj, !.minor = mi, !.patch = pa, !.tag = tg, !.pytag = PyTagOfTag[tg], !.num = nu, !.bid = b] :
      mj \in N("major"), mi \in N("minor"), pa \in N("patch"), tg \in (IF "tag" \in F \/ "pytag" \in F THEN GenTags ELSE {"final"}),
      nu \in (IF "num" \in F THEN {0, 2} ELSE {0}), b \in (IF "bid" \in F THEN GenBuilds ELSE {<<49,48,48,49>>}) }
  IN {st \in All : st.tag = "final" => st.num = 0}
SomeFlags(P) == {g \in Flags : (g.major => "major" \in FieldSet(P)) /\ (g.minor => "minor" \in FieldSet(P)) /\ (g.patch => "patch" \in FieldSet(P))
                               /\ ~g.pin_increments /\ ~g.pin_date /\ ~g.tag_num /\ g.tag \in {NoTag, "beta", "final"}}

\* --set-version targets derived from the start text s and a greater text g
Targets(s, g) == { g, s, s \o <<46, 48>>, <<48>> \o s, <<118>> \o s, SubSeq(s, 1, Len(s) - 1), s \o <<120>>, <<>>, <<49>>, g \o <<32>>,
                    g \o <<10>>, g \o <<13, 10>>, <<32>> \o g, g \o <<9>> }       \* a greater version with white space around it: PEP 440 parsing tolerates it, the pattern must not

Init == /\ p \in 1..Len(GenPatterns) /\ d \in GenDates /\ dry \in BOOLEAN
        /\ v = NoV /\ pc = "choose" /\ start = <<>> /\ cand = <<>> /\ how = "" /\ exit = -1 /\ announced = None /\ written = FALSE
P == GenPatterns[p]
Choose == /\ pc = "choose" /\ v' \in StatesFor(P, d) /\ start' = RenderDoc(v', P) /\ start' # <<>> /\ IsValid(start', P, GenToday)
          /\ pc' = "candidate" /\ UNCHANGED <<p, d, cand, how, exit, announced, written, dry>>
Auto   == /\ pc = "candidate" /\ \E g \in SomeFlags(P), off \in {0, 40} :
                LET c == Incr(start, P, g, d + off, GenToday, Dev) IN
                /\ cand' = c /\ how' = "auto"
                /\ pc' = IF c = None \/ c = Raises THEN "fail" ELSE "gate"
          /\ UNCHANGED <<p, d, v, start, exit, announced, written, dry>>
SetVer == /\ pc = "candidate"
          /\ LET g == Incr(start, P, [major |-> "major" \in FieldSet(P), minor |-> FALSE, patch |-> FALSE, tag_num |-> FALSE, pin_increments |-> FALSE, pin_date |-> FALSE, tag |-> NoTag], d + 40, GenToday, Dev)
             IN \E t \in Targets(start, IF g = None \/ g = Raises THEN start ELSE g) : cand' = t
          /\ how' = "set" /\ pc' = "gate"
          /\ UNCHANGED <<p, d, v, start, exit, announced, written, dry>>
Gate   == /\ pc = "gate"
          /\ IF GateAccepts(P, start, cand, FALSE, <<>>, GenToday)
             THEN pc' = (IF dry THEN "done" ELSE "write") /\ announced' = cand /\ exit' = (IF dry THEN 0 ELSE exit)
             ELSE pc' = "fail" /\ UNCHANGED <<announced, exit>>
          /\ UNCHANGED <<p, d, v, start, cand, how, written, dry>>
Write  == /\ pc = "write" /\ written' = TRUE /\ exit' = 0 /\ pc' = "done" /\ UNCHANGED <<p, d, v, start, cand, how, announced, dry>>
Fail   == /\ pc = "fail" /\ exit' = 1 /\ pc' = "done" /\ UNCHANGED <<p, d, v, start, cand, how, announced, written, dry>>
Next == Choose \/ Auto \/ SetVer \/ Gate \/ Write \/ Fail

\* C01
AnnouncedValidAndGreater == (pc = "done" /\ exit = 0) => /\ announced # None /\ IsValid(announced, P, GenToday) /\ VerCmp(start, announced) = -1
FailureTouchesNothing    == (pc = "done" /\ exit # 0) => ~written
DryWritesNothing         == dry => ~written
\* every --set-version class is decided (the operators are total: no candidate makes the gate undefined)
EqualSpellingRejected    == (pc = "done" /\ how = "set" /\ VerCmp(start, cand) = 0) => exit # 0
=============================================================================
