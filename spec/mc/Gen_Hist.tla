---- MODULE Gen_Hist ----
EXTENDS Integers
\* default project: vMAJOR.MINOR.PATCH[-TAG], {pep440_version} pattern MAJOR.MINOR.PATCH[PYTAGNUM], start v1.2.3-beta
GenP == <<[t |-> "lit", s |-> <<118>>], [t |-> "part", p |-> "MAJOR"], [t |-> "lit", s |-> <<46>>], [t |-> "part", p |-> "MINOR"], [t |-> "lit", s |-> <<46>>], [t |-> "part", p |-> "PATCH"],
          [t |-> "opt", body |-> <<[t |-> "lit", s |-> <<45>>], [t |-> "part", p |-> "TAG"]>>]>>
GenPartial == <<[t |-> "lit", s |-> <<115, 101, 114, 105, 101, 115, 32>>], [t |-> "part", p |-> "MAJOR"], [t |-> "lit", s |-> <<46>>], [t |-> "part", p |-> "MINOR"]>>
GenV0 == <<118, 49, 46, 50, 46, 51, 45, 98, 101, 116, 97>>
GenDay0 == 739000
GenDayStep == {0, 1, 40}
GenToday == 739892
GenFlagSets == { [major |-> FALSE, minor |-> FALSE, patch |-> TRUE, tag |-> "none", tag_num |-> FALSE, pin_increments |-> FALSE, pin_date |-> FALSE],
                 [major |-> FALSE, minor |-> TRUE, patch |-> FALSE, tag |-> "none", tag_num |-> FALSE, pin_increments |-> FALSE, pin_date |-> FALSE],
                 [major |-> FALSE, minor |-> FALSE, patch |-> FALSE, tag |-> "rc", tag_num |-> FALSE, pin_increments |-> FALSE, pin_date |-> FALSE],
                 [major |-> FALSE, minor |-> FALSE, patch |-> FALSE, tag |-> "final", tag_num |-> FALSE, pin_increments |-> FALSE, pin_date |-> FALSE],
                 [major |-> TRUE, minor |-> FALSE, patch |-> FALSE, tag |-> "alpha", tag_num |-> FALSE, pin_increments |-> FALSE, pin_date |-> FALSE],
                 [major |-> FALSE, minor |-> FALSE, patch |-> FALSE, tag |-> "none", tag_num |-> FALSE, pin_increments |-> FALSE, pin_date |-> FALSE] }
GenDepth == 8
====
