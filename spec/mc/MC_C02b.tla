------------------------------- MODULE MC_C02b -------------------------------
(***************************************************************************)
(* C02 (b) - whole patterns: every state of the value pools and every      *)
(* state reachable from it by ONE bump (all flag sets, next day / same     *)
(* day) renders to a text that its own pattern accepts in full, that reads *)
(* back with every part equal, re-renders byte for byte, and decomposes    *)
(* in exactly one way.                                                     *)
(***************************************************************************)
EXTENDS BVVersion, TLC, Gen_C02

VARIABLES p, d, v, f, lvl
vars == <<p, d, v, f, lvl>>
NoV == [none |-> TRUE]
NoF == [none |-> TRUE]
Base(day) == CalInfo(day) @@ [major |-> 0, minor |-> 0, patch |-> 0, bid |-> <<49,48,48,49>>, tag |-> "final", pytag |-> "", num |-> 0, inc0 |-> 0, inc1 |-> 1]
StatesFor(P, day) ==
  LET F == FieldSet(P)
      N(fld) == IF fld \in F THEN GenNums ELSE {0} IN
  LET All == { [Base(day) EXCEPT !.major = mj, !.minor = mi, !.patch = pa, !.tag = tg, !.pytag = PyTagOfTag[tg], !.num = nu, !.inc0 = i0, !.inc1 = i0 + 1, !.bid = b] :
      mj \in N("major"), mi \in N("minor"), pa \in N("patch"),
      tg \in (IF "tag" \in F \/ "pytag" \in F THEN GenTags ELSE {"final"}),
      nu \in (IF "num" \in F THEN {0, 10} ELSE {0}),      \* a final version has no tag number (unreachable by bumping)
      i0 \in (IF "inc0" \in F \/ "inc1" \in F THEN {0, 9} ELSE {0}),
      b \in (IF "bid" \in F THEN GenBuilds ELSE {<<49,48,48,49>>}) }
  IN {st \in All : st.tag = "final" => st.num = 0}     \* a final version has no tag number (unreachable by bumping)
FlagsFor(P) == {g \in Flags : (g.major => "major" \in FieldSet(P)) /\ (g.minor => "minor" \in FieldSet(P)) /\ (g.patch => "patch" \in FieldSet(P))
                              /\ ~g.pin_increments}
Init == p \in 1..Len(GenPatterns) /\ d \in GenDates /\ v = NoV /\ f = NoF /\ lvl = 0
Next == \/ lvl = 0 /\ v' \in StatesFor(GenPatterns[p], d) /\ lvl' = 1 /\ UNCHANGED <<p, d, f>>
        \/ lvl = 1 /\ f' \in FlagsFor(GenPatterns[p]) /\ lvl' = 2 /\ UNCHANGED <<p, d, v>>

Week53(P, st) == (st.week_w = 53 /\ HasPart(P, {"WW","0W"})) \/ (st.week_u = 53 /\ HasPart(P, {"UU","0U"}))

\* all the ways the recogniser can span the whole text; a unique decomposition means one set of captures
SpanningCaps(P, t) == LET rs == Ends(Compile(P), t, 1, <<>>) IN {rs[r][2] : r \in {q \in 1..Len(rs) : rs[q][1] = Len(t) + 1}}

\* round trip of the text t that renders state st (st may know more than the text shows)
RoundTrip(P, st, t) ==
  IF t = <<>> THEN "skip:empty" ELSE
  LET back == ParseVersion(t, P, GenToday) IN
  IF IsBad(back) THEN (IF Week53(P, st) THEN "skip:S1-week53" ELSE "not-accepted:" \o back.why) ELSE
  LET ps == PartsIn(P) IN
  IF \E q \in 1..Len(ps) : Fmt(ps[q], back) # Fmt(ps[q], st) THEN "part-changed"
  ELSE IF Render(back, P) # t THEN "rerender"
  ELSE IF Cardinality(SpanningCaps(P, t)) # 1 THEN "ambiguous-decomposition"
  ELSE "ok"

CaseVerdict ==
  LET P == GenPatterns[p] IN
  IF lvl = 1 THEN RoundTrip(P, v, Render(v, P))
  ELSE LET t0 == Render(v, P) IN
       IF t0 = <<>> \/ IsBad(ParseVersion(t0, P, GenToday)) THEN "skip:start" ELSE
       LET out == Incr(t0, P, f, d + 1, GenToday, Dev) IN
       IF out = None \/ out = Raises THEN "skip:refused" ELSE
       \* the state the bump produced is what the text must read back as: re-parse and compare with a second rendering
       LET back == ParseVersion(out, P, GenToday) IN
       IF IsBad(back) THEN (IF Week53(P, CalInfo(d + 1)) /\ ~f.pin_date THEN "skip:S1-week53" ELSE "bumped-not-accepted:" \o back.why)
       ELSE RoundTrip(P, back, out)
IsFine(c) == c = "ok" \/ (Len(c) >= 5 /\ SubSeq(c, 1, 5) = "skip:")
RoundTripHolds == lvl >= 1 => LET c == CaseVerdict IN IsFine(c) \/ (PrintT(<<"FAILED-CLAUSE", c>>) /\ FALSE)
=============================================================================
