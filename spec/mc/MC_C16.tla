------------------------------- MODULE MC_C16 -------------------------------
(***************************************************************************)
(* C16 - version comparison is a total order that agrees with PEP 440.     *)
(* Design level: the laws of the specification's own ordering over a       *)
(* universe of abstract PEP 440 records (all triples) and legacy texts,    *)
(* the PEP 440 document's example chain, and print/parse round trips.      *)
(* The conformance step (Trace_Pep) ties the implementation's comparison   *)
(* to this ordering pair by pair.                                          *)
(***************************************************************************)
EXTENDS BVPep440, TLC, SequencesExt
CONSTANTS NRel, NLegacy,     \* how many release tuples / legacy texts of the pools are used
          Step               \* triples are formed over every Step-th record of the universe (pairs over all of it)

D1(n) == <<48 + n>>
RelPool == << <<D1(1)>>, <<D1(1), D1(0)>>, <<D1(1), D1(0), D1(0)>>, <<D1(1), D1(1)>>, <<D1(0), D1(9)>>, <<<<50,48,50,49>>, D1(1)>>, <<D1(1), D1(0), D1(1)>>, <<<<49,48>>>> >>
PrePool   == {No, Yes(<< <<97>>, D1(0) >>), Yes(<< <<97>>, D1(1) >>), Yes(<< <<98>>, D1(0) >>), Yes(<< <<114,99>>, D1(0) >>), Yes(<< <<114,99>>, D1(1) >>)}
PostPool  == {No, Yes(D1(0)), Yes(D1(1))}
DevPool   == {No, Yes(D1(0)), Yes(D1(1))}
LocalPool == {No, Yes(<< <<97>> >>), Yes(<< D1(1) >>), Yes(<< <<97>>, D1(1) >>)}
Universe  == [pep : {TRUE}, epoch : {D1(0), D1(1)}, release : {RelPool[q] : q \in 1..NRel}, pre : PrePool, post : PostPool, dev : DevPool, local : LocalPool]
U == SetToSeq(Universe)

\* legacy texts: bumpver-style and arbitrary
S(str) == str
LegacyPool == << <<118,50,48,49,55,113,49,46,53,52,51,50,49>>,    \* v2017q1.54321
                 <<118,50,48,49,55,113,50,46,49>>, <<102,111,111>>, <<102,111,111,45,49>>, <<49,46,50,46,120>>, <<49,46,50,45,45,51>>,
                 <<>>, <<45>>, <<46,46>>, <<49,46,48,45,102,105,110,97,108,120>>, <<114,101,108,101,97,115,101,45,49>>, <<50,48,50,49,113,51>>,
                 <<49,46,48,46,100,101,118,120>>, <<49,32,50>>, <<118,120>>, <<49,46,50,46,51,97,98,99>> >>
Leg == [q \in 1..NLegacy |-> LegacyPool[q]]

Sub == [q \in 1..(Len(U) \div Step) |-> U[q * Step]]
\* kind "pep": pairs over the whole universe; "sub": triples over the sub-universe; "legacy": triples over the legacy texts
VARIABLES i, j, k, kind
vars == <<i, j, k, kind>>
Size == IF kind = "pep" THEN Len(U) ELSE IF kind = "sub" THEN Len(Sub) ELSE NLegacy
Init == kind \in {"pep", "sub", "legacy"} /\ i \in 1..Size /\ j = 0 /\ k = 0
Next == \/ j = 0 /\ j' \in 1..Size /\ UNCHANGED <<i, k, kind>>
        \/ j # 0 /\ k = 0 /\ kind # "pep" /\ k' \in 1..Size /\ UNCHANGED <<i, j, kind>>

Rec(a) == IF kind = "pep" THEN U[a] ELSE Sub[a]
Cmp(a, b) == IF kind = "legacy" THEN KeyCmp(LegacyKey(Leg[a]), LegacyKey(Leg[b])) ELSE PepCmp(Rec(a), Rec(b))
NormRec(x) == [x EXCEPT !.release = StripTrailZero(@)]

Reflexive     == Cmp(i, i) = 0
Antisymmetric == j # 0 => Cmp(i, j) = 0 - Cmp(j, i)
Transitive    == k # 0 => ((Cmp(i, j) <= 0 /\ Cmp(j, k) <= 0) => Cmp(i, k) <= 0)
EqualIffSameKey == (j # 0 /\ kind # "legacy") => ((Cmp(i, j) = 0) <=> (NormRec(Rec(i)) = NormRec(Rec(j))))
LegacyIsLegacy == kind = "legacy" => ~ParseVer(Leg[i]).pep
LegacyBelow   == (kind = "legacy" /\ j # 0) => \A q \in {1, Len(U) \div 2, Len(U)} : VerCmp(Leg[i], PrintRec(U[q])) = -1
PrintParse    == (kind = "pep" /\ j = 0) => (ParseVer(PrintRec(U[i])) = [U[i] EXCEPT !.pep = TRUE] /\ Canon(PrintRec(U[i])) = PrintRec(U[i]))

\* the example chain of the PEP 440 document ("Summary of permitted suffixes and relative ordering")
T(str) == str
Chain == << <<49,46,48,46,100,101,118,52,53,54>>, <<49,46,48,97,49>>, <<49,46,48,97,50,46,100,101,118,52,53,54>>, <<49,46,48,97,49,50,46,100,101,118,52,53,54>>,
            <<49,46,48,97,49,50>>, <<49,46,48,98,49,46,100,101,118,52,53,54>>, <<49,46,48,98,50>>, <<49,46,48,98,50,46,112,111,115,116,51,52,53,46,100,101,118,52,53,54>>,
            <<49,46,48,98,50,46,112,111,115,116,51,52,53>>, <<49,46,48,114,99,49,46,100,101,118,52,53,54>>, <<49,46,48,114,99,49>>, <<49,46,48>>,
            <<49,46,48,43,97,98,99,46,53>>, <<49,46,48,43,97,98,99,46,55>>, <<49,46,48,43,53>>, <<49,46,48,46,112,111,115,116,52,53,54,46,100,101,118,51,52>>,
            <<49,46,48,46,112,111,115,116,52,53,54>>, <<49,46,49,46,100,101,118,49>> >>
ASSUME PepDocumentChain == \A a \in 1..Len(Chain) : \A b \in 1..Len(Chain) :
          VerCmp(Chain[a], Chain[b]) = (IF a < b THEN -1 ELSE IF a = b THEN 0 ELSE 1)
\* normalisation examples of the PEP 440 document
ASSUME PepNormalisation ==
   /\ Canon(<<49,46,49,82,67,49>>) = <<49,46,49,114,99,49>>                           \* 1.1RC1 -> 1.1rc1
   /\ Canon(<<48,57,48,48,48>>) = <<57,48,48,48>>                                     \* 09000 -> 9000
   /\ Canon(<<49,46,49,46,97,49>>) = <<49,46,49,97,49>> /\ Canon(<<49,46,49,45,97,49>>) = <<49,46,49,97,49>>
   /\ Canon(<<49,46,49,97,46,49>>) = <<49,46,49,97,49>> /\ Canon(<<49,46,49,97,108,112,104,97,49>>) = <<49,46,49,97,49>>
   /\ Canon(<<49,46,50,97>>) = <<49,46,50,97,48>> /\ Canon(<<49,46,50,45,112,111,115,116,50>>) = <<49,46,50,46,112,111,115,116,50>>
   /\ Canon(<<49,46,50,46,114,52>>) = <<49,46,50,46,112,111,115,116,52>> /\ Canon(<<49,46,48,45,49>>) = <<49,46,48,46,112,111,115,116,49>>
   /\ Canon(<<49,46,50,100,101,118,50>>) = <<49,46,50,46,100,101,118,50>> /\ Canon(<<118,49,46,48>>) = <<49,46,48>>
   /\ Canon(<<49,46,48,43,117,98,117,110,116,117,45,49>>) = <<49,46,48,43,117,98,117,110,116,117,46,49>>
=============================================================================
