------------------------------- MODULE MC_C05 -------------------------------
(***************************************************************************)
(* C05 - bump semantics follow the documented part rules.                  *)
(* Design-level check: the operational Incr (the implementation's steps)   *)
(* against the declarative README rules BumpClause, over                   *)
(*   patterns x version states x all 448 flag sets x date offsets.         *)
(* The product is generated in layers by Next (TLC computes Init on one    *)
(* thread): pattern, date -> state -> flags + offset.                      *)
(* The two formulations are written separately; a disagreement is either a *)
(* spec bug or a hole in the rules.                                        *)
(***************************************************************************)
EXTENDS BVVersion, TLC, Gen_C05

VARIABLES p, d, v, f, off, lvl
vars == <<p, d, v, f, off, lvl>>
NoV == [none |-> TRUE]
NoF == [none |-> TRUE]

Base(day) == CalInfo(day) @@ [major |-> 0, minor |-> 0, patch |-> 0, bid |-> <<49,48,48,49>>, tag |-> "final", pytag |-> "", num |-> 0, inc0 |-> 0, inc1 |-> 1]
\* states: only fields shown by the pattern vary
StatesFor(P, day) ==
  LET F == FieldSet(P)
      N(fld) == IF fld \in F THEN GenNums ELSE {0} IN
  LET All == { [Base(day) EXCEPT !.major = mj, !.minor = mi, !.patch = pa, !.tag = tg, !.pytag = PyTagOfTag[tg], !.num = nu, !.inc0 = i0, !.inc1 = i0 + 1, !.bid = b] :
      mj \in N("major"), mi \in N("minor"), pa \in N("patch"),
      tg \in (IF "tag" \in F \/ "pytag" \in F THEN GenTags ELSE {"final"}),
      nu \in (IF "num" \in F THEN {0, 2} ELSE {0}), i0 \in (IF "inc0" \in F \/ "inc1" \in F THEN {0, 9} ELSE {0}),
      b \in (IF "bid" \in F THEN GenBuilds ELSE {<<49,48,48,49>>}) }
  IN {st \in All : st.tag = "final" => st.num = 0}     \* a final version has no tag number (unreachable by bumping)
FlagsFor(P) == {g \in Flags : (g.major => "major" \in FieldSet(P)) /\ (g.minor => "minor" \in FieldSet(P)) /\ (g.patch => "patch" \in FieldSet(P))}

Init == p \in 1..Len(GenPatterns) /\ d \in GenDates /\ v = NoV /\ f = NoF /\ off = 0 /\ lvl = 0
Next == \/ lvl = 0 /\ v' \in StatesFor(GenPatterns[p], d) /\ lvl' = 1 /\ UNCHANGED <<p, d, f, off>>
        \/ lvl = 1 /\ f' \in FlagsFor(GenPatterns[p]) /\ off' \in GenOffsets /\ lvl' = 2 /\ UNCHANGED <<p, d, v>>

\* known design-level gap, a named deviation: %W / %U reach 53, WW/0W/UU/0U recognise <= 52 (finding S1, property C02)
Week53(P, day) == LET ci == CalInfo(day) IN (ci.week_w = 53 /\ HasPart(P, {"WW","0W"})) \/ (ci.week_u = 53 /\ HasPart(P, {"UU","0U"}))

\* the failing clause of the case in this state, or "ok" / a class name for cases outside the property
CaseVerdict ==
  LET P == GenPatterns[p] t0 == RenderDoc(v, P) IN
  IF t0 = <<>> THEN "skip:unrenderable" ELSE
  LET old == ParseVersion(t0, P, GenToday) IN
  IF IsBad(old) THEN (IF Week53(P, d) THEN "skip:S1-week53" ELSE "state-unreadable:" \o old.why) ELSE
  LET day == d + off
      cal == CalInfo(day)
      F == FieldOrder(P)
      future == CalGt(old, IF f.pin_date THEN PinnedCal(old, GenToday, FALSE) ELSE cal)
      out == Incr(t0, P, f, day, GenToday, AsDoc) IN
  IF out = Raises THEN "skip:overflow" ELSE
  IF out = None THEN
       \* a refusal must be explained by the documented rules, stated independently of Incr
       (IF ~CoherentWeekPattern(P) THEN "ok:refused-incoherent"
        ELSE IF f.tag_num /\ old.tag = "final" /\ f.tag \in {NoTag, "final"} THEN "ok:refused-tagnum"
        ELSE IF ~ExpectsChange(F, old, f, cal, future) THEN "ok:refused-nothing-to-change"
        ELSE "refused-although-rules-prescribe-a-change")
  ELSE
  LET new == ParseVersion(out, P, GenToday) IN
  IF IsBad(new) THEN (IF Week53(P, day) /\ ~f.pin_date THEN "skip:S1-week53" ELSE "bumped-unreadable:" \o new.why)
  ELSE LET c == BumpClause(F, old, new, f, cal, future) IN
       IF c # "ok" THEN "rule:" \o c
       ELSE IF ~CalNotBackwards(F, old, new) THEN "calendar-backwards"
       ELSE IF out # RenderDoc(new, P) THEN "group-omission"
       ELSE "ok"

IsFine(c) == c = "ok" \/ (Len(c) >= 3 /\ SubSeq(c, 1, 3) = "ok:") \/ (Len(c) >= 5 /\ SubSeq(c, 1, 5) = "skip:")
BumpFollowsRules == lvl = 2 => LET c == CaseVerdict IN
     IsFine(c) \/ (PrintT(<<"FAILED-CLAUSE", c>>) /\ FALSE)
=============================================================================
