------------------------------- MODULE MC_C02a -------------------------------
(***************************************************************************)
(* C02 (a) - per calendar part, EVERY value the calendar reaches.          *)
(* The state is a day ordinal; Next steps to the following day.  For every *)
(* calendar part the rendering of that day's value must be accepted in     *)
(* full by the part's own recogniser and read back as the same value.      *)
(* The value sets are thus derived from the calendar, not assumed.         *)
(* Known design gap (finding S1): %W / %U reach 53 but WW/0W/UU/0U accept  *)
(* at most 52; it is the named deviation Week53Gap and is counted.         *)
(***************************************************************************)
EXTENDS BVVersion, TLC
CONSTANTS First, Last,     \* day ordinals
          Chunk            \* the range is walked in chunks of this many days (one initial state per chunk, so that all workers are used)
VARIABLE n
Init == n \in {First + k * Chunk : k \in 0..((Last - First) \div Chunk)}
Next == n < Last /\ (n + 1 - First) % Chunk # 0 /\ n' = n + 1

TwoDigitYearParts == {"YY","0Y","GG","0G"}
In2000s(day) == CalInfo(day).year_y \in 2001..2099 /\ CalInfo(day).year_g \in 2001..2099
PartsFor(day) == IF In2000s(day) THEN CalendarParts ELSE CalendarParts \ TwoDigitYearParts

\* does the part's recogniser accept the rendering in full, and does it read back as the same number?
PartOK(p, c) ==
  LET t == Fmt(p, c)
      m == Match(Grp("x", PartRx(p)), t)
      want == IF p \in TwoDigitYearParts THEN c[PartField(p)] % 100 ELSE c[PartField(p)]
  IN m.ok /\ m.end = Len(t) + 1 /\ NatOf(m.caps.x) = want
Week53Gap(p, c) == (p \in {"WW","0W"} /\ c.week_w = 53) \/ (p \in {"UU","0U"} /\ c.week_u = 53)

EveryValueAccepted == LET c == CalInfo(n) IN \A p \in PartsFor(n) : PartOK(p, c) \/ Week53Gap(p, c)
\* the deviation is exactly the gap: on those days the part is NOT accepted (so a repair shows up here)
GapIsReal == LET c == CalInfo(n) IN \A p \in PartsFor(n) : Week53Gap(p, c) => ~PartOK(p, c)
\* calendar sanity that the spec's own calendar must satisfy (independent of the implementation)
CalendarSane == LET c == CalInfo(n) IN
  /\ c.month \in 1..12 /\ c.dom \in 1..31 /\ c.doy \in 1..366 /\ c.quarter \in 1..4
  /\ c.week_w \in 0..53 /\ c.week_u \in 0..53 /\ c.week_v \in 1..53
  /\ Ordinal(c.year_y, c.month, c.dom) = n
  /\ c.year_g \in {c.year_y - 1, c.year_y, c.year_y + 1}
=============================================================================
