------------------------------- MODULE MC_C06 -------------------------------
(***************************************************************************)
(* C06 - a failed update leaves the project untouched.                     *)
(* Level 1, abstract: a project of N configured files in configuration     *)
(* order, file k carrying Pats[k] patterns; ONE fault: a (file, pattern)   *)
(* made non-matching, a file removed, or the new version rejected by the   *)
(* gate.  The update pipeline is modelled step by step:                    *)
(*   Gate -> [--dry: Diff over the files in path order -> Return]          *)
(*        -> DirtyCheck -> rewrite phase -> Add* -> Commit -> Done         *)
(* The rewrite phase has two shapes: as the property demands (validate     *)
(* every file, then write) and - constant Lazy, the repaired defect S3 -   *)
(* as a lazy loop that writes file k before looking at file k+1.           *)
(* Terminal states are exported as JSON for replay against the real code.  *)
(***************************************************************************)
EXTENDS Integers, Sequences, FiniteSets, TLC, Json
CONSTANTS MaxFiles, MaxPats, Lazy, Export

VARIABLES n, pats, fault, commit, dry, engine, pc, i, written, log, exit
vars == <<n, pats, fault, commit, dry, engine, pc, i, written, log, exit>>

NoFault == [kind |-> "none", k |-> 0, j |-> 0]
Faults(nn, pp) == {NoFault, [kind |-> "gate", k |-> 0, j |-> 0]}
                  \cup {[kind |-> "removed", k |-> k, j |-> 0] : k \in 1..nn}
                  \cup {[kind |-> "nomatch", k |-> k, j |-> j] : k \in 1..nn, j \in 1..MaxPats}
Init == /\ n \in 1..MaxFiles /\ pats \in [1..MaxFiles -> 1..MaxPats] /\ commit \in BOOLEAN /\ dry \in BOOLEAN /\ engine \in {"v2", "v1"}
        /\ fault = NoFault /\ pc = "choose" /\ i = 0 /\ written = {} /\ log = <<>> /\ exit = -1
Choose == /\ pc = "choose" /\ fault' \in {f \in Faults(n, pats) : f.kind = "nomatch" => f.j <= pats[f.k]}
          /\ \A k \in (n+1)..MaxFiles : pats[k] = 1          \* unused entries are normalised
          /\ pc' = "gate" /\ UNCHANGED <<n, pats, commit, dry, engine, i, written, log, exit>>

FileOK(k) == ~(fault.kind \in {"removed", "nomatch"} /\ fault.k = k)
Fail == pc' = "done" /\ exit' = 1
Gate == /\ pc = "gate"
        /\ IF fault.kind = "gate" THEN Fail /\ UNCHANGED <<i, written, log>>
           ELSE pc' = (IF dry THEN "diff" ELSE "dirty") /\ i' = 1 /\ UNCHANGED <<written, log, exit>>
        /\ UNCHANGED <<n, pats, fault, commit, dry, engine>>
\* --dry: the diff is computed file by file; any file that cannot be rewritten ends the run with an error
Diff == /\ pc = "diff"
        /\ IF i > n THEN pc' = "done" /\ exit' = 0 /\ UNCHANGED i
           ELSE IF FileOK(i) THEN i' = i + 1 /\ UNCHANGED <<pc, exit>> ELSE Fail /\ UNCHANGED i
        /\ UNCHANGED <<n, pats, fault, commit, dry, engine, written, log>>
Dirty == /\ pc = "dirty" /\ log' = (IF commit THEN Append(log, "status") ELSE log)
         /\ pc' = (IF Lazy THEN "rewrite" ELSE "validate") /\ i' = 1
         /\ UNCHANGED <<n, pats, fault, commit, dry, engine, written, exit>>
\* as the property demands: look at every file first ...
Validate == /\ pc = "validate"
            /\ IF i > n THEN pc' = "write" /\ i' = 1 /\ UNCHANGED exit
               ELSE IF FileOK(i) THEN i' = i + 1 /\ UNCHANGED <<pc, exit>> ELSE Fail /\ UNCHANGED i
            /\ UNCHANGED <<n, pats, fault, commit, dry, engine, written, log>>
\* ... then write them all
Write == /\ pc = "write"
         /\ IF i > n THEN pc' = (IF commit THEN "add" ELSE "done") /\ exit' = (IF commit THEN exit ELSE 0) /\ i' = 1 /\ UNCHANGED written
            ELSE written' = written \cup {i} /\ i' = i + 1 /\ UNCHANGED <<pc, exit>>
         /\ UNCHANGED <<n, pats, fault, commit, dry, engine, log>>
\* the lazy loop (defect S3): file i is validated AND written before file i+1 is looked at
Rewrite == /\ pc = "rewrite"
           /\ IF i > n THEN pc' = (IF commit THEN "add" ELSE "done") /\ exit' = (IF commit THEN exit ELSE 0) /\ i' = 1 /\ UNCHANGED written
              ELSE IF FileOK(i) THEN written' = written \cup {i} /\ i' = i + 1 /\ UNCHANGED <<pc, exit>>
              ELSE Fail /\ UNCHANGED <<i, written>>
           /\ UNCHANGED <<n, pats, fault, commit, dry, engine, log>>
Add == /\ pc = "add"
       /\ IF i > n THEN pc' = "commit" /\ UNCHANGED <<i, log>> ELSE log' = Append(log, "add") /\ i' = i + 1 /\ UNCHANGED pc
       /\ UNCHANGED <<n, pats, fault, commit, dry, engine, written, exit>>
Commit == /\ pc = "commit" /\ log' = Append(log, "commit") /\ pc' = "done" /\ exit' = 0
          /\ UNCHANGED <<n, pats, fault, commit, dry, engine, i, written>>
Next == Choose \/ Gate \/ Diff \/ Dirty \/ Validate \/ Write \/ Rewrite \/ Add \/ Commit

Mutating == {"add", "commit", "tag", "push"}
\* C06
FailedUpdateTouchesNothing == (pc = "done" /\ exit # 0) => (written = {} /\ \A q \in 1..Len(log) : log[q] \notin Mutating)
FaultMeansFailure          == (pc = "done" /\ fault.kind # "none") => exit # 0
NoFaultMeansSuccess        == (pc = "done" /\ fault.kind = "none") => (exit = 0 /\ (dry \/ written = 1..n))
DryWritesNothing           == dry => written = {} /\ log = <<>>
\* export: one JSON line per terminal state (the case and what must be observed)
Exported == (Export /\ pc = "done") =>
  PrintT(ToJson([n |-> n, pats |-> [k \in 1..n |-> pats[k]], fault |-> fault, commit |-> commit, dry |-> dry, engine |-> engine,
                 exit_zero |-> exit = 0, written |-> written, log |-> log]))
=============================================================================
