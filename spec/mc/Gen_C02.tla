---- MODULE Gen_C02 ----
EXTENDS Integers
\* default instance (replaced per run by the harness)
GenPatterns == << <<[t |-> "lit", s |-> <<118>>], [t |-> "part", p |-> "YYYY"], [t |-> "part", p |-> "0M"], [t |-> "lit", s |-> <<46>>], [t |-> "part", p |-> "BUILD"],
                   [t |-> "opt", body |-> <<[t |-> "lit", s |-> <<45>>], [t |-> "part", p |-> "TAG"]>>]>> >>
GenDates == {737791, 739250}
GenToday == 739892
GenNums == {0, 9, 10}
GenBuilds == {<<49,48,48,49>>, <<48,57,57,57>>}
GenTags == {"final", "beta"}
====
