---- MODULE Gen_C09 ----
EXTENDS Integers
\* default instance: pattern MAJOR.MINOR.PATCH; texts 1.2.2 1.2.3 1.2.4 1.2.5 1.2.03 v1.2.9 junk 1.2.3x
GenPattern == <<[t |-> "part", p |-> "MAJOR"], [t |-> "lit", s |-> <<46>>], [t |-> "part", p |-> "MINOR"], [t |-> "lit", s |-> <<46>>], [t |-> "part", p |-> "PATCH"]>>
GenTexts == << <<49,46,50,46,50>>, <<49,46,50,46,51>>, <<49,46,50,46,52>>, <<49,46,50,46,53>>, <<49,46,50,46,48,51>>, <<118,49,46,50,46,57>>, <<106,117,110,107>>, <<49,46,50,46,51,120>> >>
GenConfig == {1, 2, 4}          \* indices of texts used as the config value
GenFlags == [major |-> FALSE, minor |-> FALSE, patch |-> TRUE, tag_num |-> FALSE, pin_increments |-> FALSE, pin_date |-> FALSE, tag |-> "none"]
GenDate == 738000
GenToday == 739892
GenMaxTags == 4
====
