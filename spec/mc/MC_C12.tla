------------------------------- MODULE MC_C12 -------------------------------
(***************************************************************************)
(* C12 - messages, tag names and paths reach the VCS verbatim.             *)
(* Templates over a small alphabet of hostile symbols and placeholders up  *)
(* to N symbols; for every template and source (config / command line):    *)
(*   OneArgument     the message is one argument of the argv, the argv has *)
(*                   the template's length whatever the value contains     *)
(*   NoPlaceholderLeft  a rendered message contains no documented          *)
(*                   placeholder of the template any more, and every       *)
(*                   literal symbol of the template is still there         *)
(*   ShorthandOnlyWords  OLD / NEW are substituted only as whole words     *)
(***************************************************************************)
EXTENDS BVVcs, TLC
CONSTANT N
\* symbols: letter, blank, ' " \ $ ` - newline, e-acute, the placeholder {new_version}, the words OLD and xOLD
Sym == << <<97>>, <<32>>, <<39>>, <<34>>, <<92>>, <<36>>, <<96>>, <<45>>, <<10>>, <<233>>,
          <<123>> \o NameText("new_version") \o <<125>>, <<79,76,68>>, <<120,79,76,68>>, <<123,123>>, <<125,125>> >>
KW == [old |-> <<49,46,48>>, new |-> <<49,46,49>>, oldpep |-> <<49,46,48>>, newpep |-> <<49,46,49>>]
VARIABLES syms, cli
vars == <<syms, cli>>
Init == syms = <<>> /\ cli \in BOOLEAN
Next == Len(syms) < N /\ \E k \in 1..Len(Sym) : syms' = Append(syms, k) /\ UNCHANGED cli
Tmpl == Flatten([q \in 1..Len(syms) |-> Sym[syms[q]]])
Msg == Message(Tmpl, cli, KW)
OneArgument == \A tool \in {"git", "hg"} : LET a == Argv(tool, "tag", [tag |-> KW.new, message |-> Msg]) IN
                  Len(a) = Len(Template(tool, "tag")) /\ a[Len(a)] = Msg
NoPlaceholderLeft == Msg # BadTemplate /\ ~Contains(Msg, <<123>> \o NameText("new_version") \o <<125>>)
\* the shorthand is a command line feature; inside a longer word (xOLD) it is not substituted
ShorthandOnlyWords ==
  /\ (~cli /\ \E q \in 1..Len(syms) : syms[q] = 12) => Contains(Msg, <<79,76,68>>)
  /\ (\E q \in 1..Len(syms) : syms[q] = 13) => Contains(Msg, <<120,79,76,68>>)
  /\ (cli /\ syms # <<>> /\ (\A q \in 1..Len(syms) : syms[q] \in {12, 2}) /\ (\A q \in 1..(Len(syms) - 1) : ~(syms[q] = 12 /\ syms[q+1] = 12)))
        => ~Contains(Msg, <<79,76,68>>)
LiteralsKept == \A q \in 1..Len(syms) : syms[q] \in 1..10 => Contains(Msg, Sym[syms[q]])
=============================================================================
