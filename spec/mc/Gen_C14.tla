---- MODULE Gen_C14 ----
EXTENDS Integers
\* default instance (replaced per run by the harness): coherent combinations, rejected pairings, witness candidates
GenCoherent == << <<[t |-> "part", p |-> "YYYY"], [t |-> "lit", s |-> <<46>>], [t |-> "part", p |-> "MM"]>>,
                  <<[t |-> "part", p |-> "GGGG"], [t |-> "lit", s |-> <<46>>], [t |-> "part", p |-> "0V"]>> >>
GenRejected == << <<[t |-> "part", p |-> "YYYY"], [t |-> "lit", s |-> <<46>>], [t |-> "part", p |-> "VV"]>>,
                  <<[t |-> "part", p |-> "GGGG"], [t |-> "lit", s |-> <<46>>], [t |-> "part", p |-> "WW"]>> >>
GenWitnessDays == 737780..737800
GenBoundary == {737790, 737791, 737794, 738155, 738156}
GenToday == 739892
GenExtraSeq == <<737790, 738155>>
====
