------------------------------- MODULE MC_C09 -------------------------------
(***************************************************************************)
(* C09 - the current version is the greatest matching tag in scope.        *)
(* A universe of tag texts for one pattern (valid versions below / equal / *)
(* above the config value, a PEP 440-equal respelling, a version of        *)
(* another scheme, junk, a valid text with trailing junk, an impossible    *)
(* date); every set of at most GenMaxTags of them placed on two branches   *)
(* (HEAD's branch or the other one), three scopes, --ignore-vcs-tag,       *)
(* automatic increment or --set-version.  Each text is parsed ONCE into a  *)
(* table (TLC registers); the machine works on indices.                    *)
(*   StartIsMaxInScope, JunkIsInert, OrderIndependent, NewIsFresh          *)
(***************************************************************************)
EXTENDS BVResolve, TLC, Gen_C09
N == Len(GenTexts)
\* per text: is it a valid version of the pattern, its parsed form, and the text an automatic increment leads to
RECURSIVE BuildTab(_)
BuildTab(q) == IF q > N THEN <<>> ELSE
  << [valid |-> IsValid(GenTexts[q], GenPattern, GenToday), ver |-> ParseVer(GenTexts[q]),
      key |-> IF ParseVer(GenTexts[q]).pep THEN <<>> ELSE LegacyKey(GenTexts[q]),
      succ |-> IF IsValid(GenTexts[q], GenPattern, GenToday) THEN Incr(GenTexts[q], GenPattern, GenFlags, GenDate, GenToday, Dev) ELSE None] >> \o BuildTab(q + 1)
ASSUME TableBuilt == TLCSet(2, BuildTab(1))
Tab == TLCGet(2)
Cmp(a, b) == IF Tab[a].ver.pep /\ Tab[b].ver.pep THEN PepCmp(Tab[a].ver, Tab[b].ver)
             ELSE IF Tab[a].ver.pep THEN 1 ELSE IF Tab[b].ver.pep THEN -1 ELSE KeyCmp(Tab[a].key, Tab[b].key)

\* tags: a function index -> "none" | "head" (reachable from HEAD) | "other" (on another branch only)
VARIABLES tags, cfg, scope, ignore, lvl
vars == <<tags, cfg, scope, ignore, lvl>>
Present == {q \in 1..N : tags[q] # "none"}
Init == /\ tags = [q \in 1..N |-> "none"] /\ cfg \in GenConfig /\ scope \in {"default", "global", "branch"} /\ ignore \in BOOLEAN
        /\ lvl = 0
Next == /\ lvl < GenMaxTags
        /\ \E q \in 1..N : tags[q] = "none" /\ (\A r \in (q+1)..N : tags[r] = "none") /\ \E where \in {"head", "other"} : tags' = [tags EXCEPT ![q] = where]
        /\ lvl' = lvl + 1 /\ UNCHANGED <<cfg, scope, ignore>>

InScope(q) == tags[q] # "none" /\ (scope # "branch" \/ tags[q] = "head")
Candidates == {q \in 1..N : InScope(q) /\ Tab[q].valid}
\* greatest candidate (an index), first among equals
MaxOf(S) == CHOOSE m \in S : (\A x \in S : Cmp(x, m) <= 0) /\ (\A x \in S : Cmp(x, m) = 0 => m <= x)
Start == IF ignore \/ Candidates = {} THEN cfg
         ELSE LET m == MaxOf(Candidates) IN IF scope = "default" /\ Cmp(m, cfg) # 1 THEN cfg ELSE m
\* the automatic increment from the start version, and whether the run announces it
NewText == Tab[Start].succ
\* when the uniqueness check is performed for an automatic increment: tag scope branch - under the other scopes the start version
\* already dominates every valid tag - and under --ignore-vcs-tag (deviation s14: it was skipped there)
Unique == scope = "branch" \/ (ignore /\ ~Dev.s14)
Announces == NewText # None /\ NewText # Raises /\ VerCmp(GenTexts[Start], NewText) = -1
             /\ (Unique => ~\E q \in Present : Tab[q].valid /\ GenTexts[q] = NewText)

StartIsMaxInScope == ~ignore => /\ (Start # cfg => Start \in Candidates)
                                /\ \A q \in Candidates : Cmp(q, Start) <= 0
                                /\ (scope = "default" => Cmp(cfg, Start) <= 0)
                                /\ (scope # "default" /\ Candidates # {} => Start \in Candidates)
ConfigWhenNoTagMatches == Candidates = {} => Start = cfg
\* removing every tag that is not a valid version of the pattern changes nothing
JunkIsInert == LET valid == {q \in Present : Tab[q].valid}
                   C2 == {q \in valid : scope # "branch" \/ tags[q] = "head"} IN
               Candidates = C2
\* the new version never equals an existing tag of any branch
NewIsFresh == Announces => ~\E q \in Present : GenTexts[q] = NewText
=============================================================================
