------------------------------- MODULE MC_C19 -------------------------------
(***************************************************************************)
(* C19 - `init` always produces a configuration that bumpver itself can    *)
(* use.  All 4^5 content-class layouts of the five config-capable files;   *)
(* the commands  init --dry ; init ; show ; init  as a little machine over *)
(* the abstract file system (content class + "appended" mark per file).    *)
(***************************************************************************)
EXTENDS BVConfig, TLC
Files == {Candidates[q] : q \in 1..Len(Candidates)}
VARIABLES lay0, lay, step, appended, exits, shownFrom
vars == <<lay0, lay, step, appended, exits, shownFrom>>
Init == lay0 \in [Files -> Classes] /\ lay = lay0 /\ step = 0 /\ appended = {} /\ exits = <<>> /\ shownFrom = ""
Refuses(l) == l[PickConfigFile(l)] = "section"
DryInit == step = 0 /\ step' = 1 /\ exits' = Append(exits, IF Refuses(lay) THEN 1 ELSE 0) /\ UNCHANGED <<lay0, lay, appended, shownFrom>>
DoInit(n) == /\ step = n /\ step' = n + 1
             /\ IF Refuses(lay) THEN exits' = Append(exits, 1) /\ UNCHANGED <<lay, appended>>
                ELSE exits' = Append(exits, 0) /\ lay' = AfterInit(lay) /\ appended' = appended \cup {PickConfigFile(lay)}
             /\ UNCHANGED <<lay0, shownFrom>>
Show == step = 2 /\ step' = 3 /\ shownFrom' = PickConfigFile(lay) /\ exits' = Append(exits, IF lay[PickConfigFile(lay)] = "section" THEN 0 ELSE 1)
        /\ UNCHANGED <<lay0, lay, appended>>
Next == DryInit \/ DoInit(1) \/ Show \/ DoInit(3)

DryWritesNothing == step = 1 => lay = lay0 /\ appended = {}
AppendOnlyOneFile == Cardinality(appended) <= 1 /\ \A f \in Files : f \notin appended => lay[f] = lay0[f]
ShowReadsBack == step >= 3 => exits[3] = 0 /\ (appended # {} => shownFrom \in appended) /\ shownFrom = PickConfigFile(lay0)
SecondInitRefuses == step = 4 => exits[4] = 1
ConfiguredFilePreferred == (\E f \in Files : lay0[f] = "section") => lay0[PickConfigFile(lay0)] = "section"
ExpectationAgrees == step = 4 => LET x == InitExpectation(lay0) IN
     x.target = PickConfigFile(lay0) /\ x.dry_exit0 = (exits[1] = 0) /\ x.init_exit0 = (exits[2] = 0) /\ x.written = appended /\ x.second_exit0 = (exits[4] = 0)
=============================================================================
