---- MODULE Gen_C05 ----
EXTENDS Integers
\* default instance (replaced per run by the harness: patterns from the corpus, states from the value pools)
GenPatterns == << <<[t |-> "part", p |-> "MAJOR"], [t |-> "lit", s |-> <<46>>], [t |-> "part", p |-> "MINOR"], [t |-> "lit", s |-> <<46>>], [t |-> "part", p |-> "PATCH"],
                   [t |-> "opt", body |-> <<[t |-> "part", p |-> "PYTAG"], [t |-> "part", p |-> "NUM"]>>]>> >>
GenDates == {737791, 738000}
GenToday == 739892
GenNums == {0, 9}
GenBuilds == {<<49,48,48,49>>, <<49,57,57,57>>}
GenTags == {"final", "beta"}
GenOffsets == {0, 1, 31, -1}
====
