------------------------------- MODULE MC_C10 -------------------------------
(***************************************************************************)
(* C10 - VCS steps run only as configured, in order, and stop at the first *)
(* failure.  The update pipeline as a step-by-step machine over the full   *)
(* configuration product (chosen in layers), with at most one injected     *)
(* command failure.  The properties are stated on the recorded log,        *)
(* independently of the machine; Expected(conf) - the declarative reading  *)
(* used to judge real runs - is tied to the machine at terminal states.    *)
(***************************************************************************)
EXTENDS BVPipeline, TLC
CONSTANTS Tools,     \* {"git"} or {"git", "hg"}
          Extras     \* {FALSE} or BOOLEAN: values of --ignore-vcs-tag and of the uniqueness check
VARIABLES conf, lvl, pc, log, exit, filesChanged
vars == <<conf, lvl, pc, log, exit, filesChanged>>

Init == /\ conf = [vcs |-> "git"] /\ lvl = 0 /\ pc = "choose" /\ log = <<>> /\ exit = 0 /\ filesChanged = FALSE
Choose ==
  /\ pc = "choose"
  /\ \/ lvl = 0 /\ \E v \in Tools, tr \in CfgTriples : conf' = [vcs |-> v, cfg |-> tr] /\ lvl' = 1
     \/ lvl = 1 /\ \E a \in Tri, b \in Tri, c \in Tri : conf' = conf @@ [fcommit |-> a, ftag |-> b, fpush |-> c] /\ lvl' = 2
     \/ lvl = 2 /\ \E pre \in Hook, post \in Hook, src \in {"config", "cli"} : conf' = conf @@ [pre |-> pre, post |-> post, hooksrc |-> src] /\ lvl' = 3
     \/ lvl = 3 /\ \E dirty \in BOOLEAN, allow \in BOOLEAN, tagmsg \in BOOLEAN, remote \in BOOLEAN, dry \in BOOLEAN, fetch \in BOOLEAN, ig \in Extras, un \in Extras :
                     conf' = conf @@ [dirty |-> dirty, allow |-> allow, tagmsg |-> tagmsg, remote |-> remote, dry |-> dry, fetch |-> fetch, ignore |-> ig, unique |-> un] /\ lvl' = 4
     \/ lvl = 4 /\ \E f \in Failable : conf' = conf @@ [failat |-> f] /\ lvl' = 5
  /\ pc' = IF lvl' = 5 THEN "merge" ELSE "choose"
  /\ UNCHANGED <<log, exit, filesChanged>>

Goto(p) == pc' = p /\ UNCHANGED <<conf, lvl>>
Emit(name) == log' = Append(log, name)
Fail == exit' = 1 /\ pc' = "done" /\ UNCHANGED <<conf, lvl>>
Fails(name) == conf.failat = name
Merge == pc = "merge" /\ (IF Contradiction(conf) THEN Fail /\ UNCHANGED <<log, filesChanged>> ELSE Goto("fetch") /\ UNCHANGED <<log, exit, filesChanged>>)
Fetch == pc = "fetch" /\ IF conf.fetch /\ conf.remote /\ ~conf.ignore
                         THEN Emit("fetch") /\ UNCHANGED filesChanged /\ (IF Fails("fetch") THEN Fail ELSE Goto("lstags") /\ UNCHANGED exit)
                         ELSE Goto("lstags") /\ UNCHANGED <<log, exit, filesChanged>>
EmitTags == log' = (IF log # <<>> /\ log[Len(log)] = "lstags" THEN log ELSE Append(log, "lstags"))     \* consecutive listings count once
LsTags == pc = "lstags" /\ UNCHANGED filesChanged /\
          (IF conf.ignore THEN Goto("gate") /\ UNCHANGED <<log, exit>>
           ELSE EmitTags /\ (IF Fails("lstags") THEN Fail ELSE Goto("gate") /\ UNCHANGED exit))
\* the gate lists the tags of all branches once more when uniqueness is demanded
Gate == pc = "gate" /\ UNCHANGED filesChanged /\
        (IF conf.unique \/ conf.ignore THEN EmitTags /\ (IF Fails("lstags") THEN Fail ELSE Goto("aftergate") /\ UNCHANGED exit)
         ELSE Goto("aftergate") /\ UNCHANGED <<log, exit>>)
AfterGate == pc = "aftergate" /\ UNCHANGED <<log, exit, filesChanged>> /\ Goto(IF conf.dry THEN "done" ELSE IF MCommit(conf) THEN "status" ELSE "write")
Status == pc = "status" /\ Emit("status") /\ UNCHANGED filesChanged
          /\ (IF Fails("status") \/ (conf.dirty /\ ~conf.allow) THEN Fail ELSE Goto("write") /\ UNCHANGED exit)
Write == pc = "write" /\ filesChanged' = TRUE /\ UNCHANGED <<log, exit>> /\ Goto(IF MCommit(conf) THEN "prehook" ELSE "done")
PreHook == pc = "prehook" /\ UNCHANGED filesChanged /\
           (IF conf.pre = "absent" THEN Goto("add") /\ UNCHANGED <<log, exit>>
            ELSE Emit("prehook") /\ (IF conf.pre = "fail" THEN Fail ELSE Goto("add") /\ UNCHANGED exit))
Add == pc = "add" /\ Emit("add") /\ UNCHANGED filesChanged /\ (IF Fails("add") THEN Fail ELSE Goto("commit") /\ UNCHANGED exit)
Commit == pc = "commit" /\ Emit("commit") /\ UNCHANGED filesChanged /\ (IF Fails("commit") THEN Fail ELSE Goto("posthook") /\ UNCHANGED exit)
PostHook == pc = "posthook" /\ UNCHANGED filesChanged /\
           (IF conf.post = "absent" THEN Goto("tag") /\ UNCHANGED <<log, exit>>
            ELSE Emit("posthook") /\ (IF conf.post = "fail" THEN Fail ELSE Goto("tag") /\ UNCHANGED exit))
Tag == pc = "tag" /\ UNCHANGED filesChanged /\
       (IF ~MTag(conf) THEN Goto("push") /\ UNCHANGED <<log, exit>>
        ELSE Emit(TagName(conf)) /\ (IF Fails("tag") THEN Fail ELSE Goto("push") /\ UNCHANGED exit))
Push == pc = "push" /\ UNCHANGED filesChanged /\
       (IF ~MPush(conf) \/ ~conf.remote THEN Goto("done") /\ UNCHANGED <<log, exit>>
        ELSE Emit(PushName(conf)) /\ (IF Fails("push") THEN Fail ELSE Goto("done") /\ UNCHANGED exit))
Next == Choose \/ Merge \/ Fetch \/ LsTags \/ Gate \/ AfterGate \/ Status \/ Write \/ PreHook \/ Add \/ Commit \/ PostHook \/ Tag \/ Push
Spec == Init /\ [][Next]_vars

\* ---------- the property, on the log ----------
In(name) == \E q \in 1..Len(log) : log[q] = name
Idx(name) == CHOOSE q \in 1..Len(log) : log[q] = name
Before(a, b) == In(a) /\ In(b) => Idx(a) < Idx(b)
MutatingNames == {"add", "commit", "tag", "tag_light", "push", "push_tag"}
Order == <<"status", "prehook", "add", "commit", "posthook", "tag", "tag_light", "push", "push_tag">>
Ordered == \A a, b \in 1..Len(Order) : a < b => Before(Order[a], Order[b])
NoCommitNoTagPush == (\E x \in {"tag","tag_light","push","push_tag","posthook"} : In(x)) => In("commit")
NoFetch == (~conf.fetch \/ conf.ignore) => ~In("fetch")
DryInert == conf.dry => ~filesChanged /\ ~\E x \in MutatingNames \cup {"prehook","posthook","status"} : In(x)
RejectFirst == (Contradiction(conf) /\ pc = "done") => log = <<>> /\ ~filesChanged /\ exit = 1
OnlyIfEnabled == /\ (In("commit") => MCommit(conf)) /\ (In("tag") \/ In("tag_light") => MTag(conf) /\ MCommit(conf))
                 /\ (In("push") \/ In("push_tag") => MPush(conf) /\ MCommit(conf) /\ conf.remote)
                 /\ (In("prehook") => conf.pre # "absent" /\ MCommit(conf)) /\ (In("posthook") => conf.post # "absent")
StopAtFailure == /\ (In("prehook") /\ conf.pre = "fail" => ~In("add"))
                 /\ (In("posthook") /\ conf.post = "fail" => ~In("tag") /\ ~In("tag_light") /\ ~In("push") /\ ~In("push_tag"))
                 /\ (conf.failat = "commit" /\ In("commit") => ~In("posthook") /\ ~In("tag") /\ ~In("tag_light") /\ ~In("push") /\ ~In("push_tag"))
                 /\ (conf.failat = "add" /\ In("add") => ~In("commit"))
                 /\ (conf.failat = "tag" /\ (In("tag") \/ In("tag_light")) => ~In("push") /\ ~In("push_tag"))
                 /\ (conf.failat = "status" /\ In("status") => ~filesChanged)
StepsAsConfigured == lvl = 5 => Ordered /\ NoCommitNoTagPush /\ NoFetch /\ DryInert /\ RejectFirst /\ OnlyIfEnabled /\ StopAtFailure
\* the declarative reading agrees with the machine
ExpectedAgrees == (lvl = 5 /\ pc = "done") => LET e == Expected(conf) IN e.log = log /\ e.exit0 = (exit = 0) /\ e.changed = filesChanged
=============================================================================
