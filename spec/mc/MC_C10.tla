------------------------------- MODULE MC_C10 -------------------------------
(***************************************************************************)
(* C10 - VCS steps run only as configured, in order, and stop at the first *)
(* failure.  The update pipeline as a step-by-step machine over the full   *)
(* configuration product (chosen in layers), with at most one injected     *)
(* command failure.  The properties are stated on the recorded log,        *)
(* independently of the machine; Expected(conf) - the declarative reading  *)
(* used to judge real runs - is tied to the machine at terminal states.    *)
(***************************************************************************)
EXTENDS Pipeline
CONSTANTS Tools,     \* {"git"} or {"git", "hg"}
          Extras,    \* {FALSE} or BOOLEAN: values of --ignore-vcs-tag and of the uniqueness check
          HookKinds  \* subset of Hook ("fail" and "unstartable" are the same to the machine: both satisfy HookFails)
vars == pvars

Init == /\ conf = [vcs |-> "git"] /\ lvl = 0 /\ pc = "choose" /\ log = <<>> /\ exit = 0 /\ filesChanged = FALSE
Choose ==
  /\ pc = "choose"
  /\ \/ lvl = 0 /\ \E v \in Tools, tr \in CfgTriples : conf' = [vcs |-> v, cfg |-> tr] /\ lvl' = 1
     \/ lvl = 1 /\ \E a \in Tri, b \in Tri, c \in Tri : conf' = conf @@ [fcommit |-> a, ftag |-> b, fpush |-> c] /\ lvl' = 2
     \/ lvl = 2 /\ \E pre \in HookKinds, post \in HookKinds, src \in {"config", "cli"} : conf' = conf @@ [pre |-> pre, post |-> post, hooksrc |-> src] /\ lvl' = 3
     \/ lvl = 3 /\ \E dirty \in BOOLEAN, dirtypat \in BOOLEAN, allow \in BOOLEAN, tagmsg \in BOOLEAN, remote \in BOOLEAN, dry \in BOOLEAN, fetch \in BOOLEAN, ig \in Extras, un \in Extras :
                     conf' = conf @@ [dirty |-> dirty, dirtypat |-> dirtypat, allow |-> allow, tagmsg |-> tagmsg, remote |-> remote, dry |-> dry, fetch |-> fetch, ignore |-> ig, unique |-> un] /\ lvl' = 4
     \/ lvl = 4 /\ \E f \in Failable : conf' = conf @@ [failat |-> f] /\ lvl' = 5
  /\ pc' = IF lvl' = 5 THEN "merge" ELSE "choose"
  /\ UNCHANGED <<log, exit, filesChanged>>

Next == Choose \/ Step
Spec == Init /\ [][Next]_vars

\* ---------- the property, on the log ----------
In(name) == \E q \in 1..Len(log) : log[q] = name
Idx(name) == CHOOSE q \in 1..Len(log) : log[q] = name
Before(a, b) == In(a) /\ In(b) => Idx(a) < Idx(b)
MutatingNames == {"add", "commit", "tag", "tag_light", "push", "push_tag"}
Order == <<"status", "prehook", "add", "commit", "posthook", "tag", "tag_light", "push", "push_tag">>
Ordered == \A a, b \in 1..Len(Order) : a < b => Before(Order[a], Order[b])
NoCommitNoTagPush == (\E x \in {"tag","tag_light","push","push_tag","posthook"} : In(x)) => In("commit")
NoFetch == (~conf.fetch \/ conf.ignore) => ~In("fetch")
DryInert == conf.dry => ~filesChanged /\ ~\E x \in MutatingNames \cup {"prehook","posthook","status"} : In(x)
RejectFirst == (Contradiction(conf) /\ pc = "done") => log = <<>> /\ ~filesChanged /\ exit = 1
OnlyIfEnabled == /\ (In("commit") => MCommit(conf)) /\ (In("tag") \/ In("tag_light") => MTag(conf) /\ MCommit(conf))
                 /\ (In("push") \/ In("push_tag") => MPush(conf) /\ MCommit(conf) /\ conf.remote)
                 /\ (In("prehook") => conf.pre # "absent" /\ MCommit(conf)) /\ (In("posthook") => conf.post # "absent")
StopAtFailure == /\ (In("prehook") /\ HookFails(conf.pre) => ~In("add") /\ ~In("commit"))
                 /\ (In("posthook") /\ HookFails(conf.post) => ~In("tag") /\ ~In("tag_light") /\ ~In("push") /\ ~In("push_tag"))
                 /\ (conf.failat = "commit" /\ In("commit") => ~In("posthook") /\ ~In("tag") /\ ~In("tag_light") /\ ~In("push") /\ ~In("push_tag"))
                 /\ (conf.failat = "add" /\ In("add") => ~In("commit"))
                 /\ (conf.failat = "tag" /\ (In("tag") \/ In("tag_light")) => ~In("push") /\ ~In("push_tag"))
                 /\ (conf.failat = "status" /\ In("status") => ~filesChanged)
StepsAsConfigured == lvl = 5 => Ordered /\ NoCommitNoTagPush /\ NoFetch /\ DryInert /\ RejectFirst /\ OnlyIfEnabled /\ StopAtFailure
\* the declarative reading agrees with the machine
ExpectedAgrees == (lvl = 5 /\ pc = "done") => LET e == Expected(conf) IN e.log = CollapseTags(log) /\ e.exit0 = (exit = 0) /\ e.changed = filesChanged
=============================================================================
