------------------------------- MODULE MC_C14 -------------------------------
(***************************************************************************)
(* C14 - calendar versions never run backwards as the date advances.       *)
(*  Monotone      : for every coherent year x sub-part combination Q and   *)
(*                  every consecutive day pair n, n+1 the version rendered *)
(*                  for n+1 is not lower (PEP 440 order) than that for n   *)
(*  RejectedAreIncoherent : every pairing the week-pattern rule rejects is *)
(*                  non-monotone on some day pair (a witness exists)       *)
(*  CoherentAccepted : every combination in the list passes the rule       *)
(*  NeverBackwards : bumping from any boundary date to any boundary date   *)
(*                  (also earlier ones) never lowers the calendar parts    *)
(***************************************************************************)
EXTENDS BVVersion, BVPep440, TLC, Gen_C14
CONSTANTS First, Last, Chunk
ExtraChunk == Len(GenExtraSeq) \div 24 + 1
(* mode "walk": n walks First..Last in chunks;  mode "day": n walks the list GenExtraSeq of further days;       *)
(* mode "bump": q, a chosen initially, b chosen by Next (the bump-level product, spread over all workers)       *)
VARIABLES mode, n, q, a, b
vars == <<mode, n, q, a, b>>
Init == \/ mode = "walk" /\ n \in {First + k * Chunk : k \in 0..((Last - First) \div Chunk)} /\ q = 0 /\ a = 0 /\ b = 0
        \/ mode = "day" /\ a \in {1 + k * ExtraChunk : k \in 0..((Len(GenExtraSeq) - 1) \div ExtraChunk)} /\ Len(GenExtraSeq) > 0 /\ n = GenExtraSeq[a] /\ q = 0 /\ b = 0
        \/ mode = "bump" /\ n = 0 /\ q \in 1..Len(GenCoherent) /\ a \in GenBoundary /\ b = 0
Next == \/ mode = "walk" /\ n < Last /\ (n + 1 - First) % Chunk # 0 /\ n' = n + 1 /\ UNCHANGED <<mode, q, a, b>>
        \/ mode = "day" /\ a < Len(GenExtraSeq) /\ a % ExtraChunk # 0 /\ a' = a + 1 /\ n' = GenExtraSeq[a + 1] /\ UNCHANGED <<mode, q, b>>
        \/ mode = "bump" /\ b = 0 /\ b' \in GenBoundary /\ UNCHANGED <<mode, n, q, a>>

Cal(day) == CalInfo(day) @@ [major |-> 0, minor |-> 0, patch |-> 0, bid |-> <<49,48,48,49>>, tag |-> "final", pytag |-> "", num |-> 0, inc0 |-> 0, inc1 |-> 1]
Backwards(Q, day) == VerCmp(RenderDoc(Cal(day), Q), RenderDoc(Cal(day + 1), Q)) = 1

Monotone == mode \in {"walk", "day"} => \A k \in 1..Len(GenCoherent) : ~Backwards(GenCoherent[k], n)

ASSUME CoherentAccepted == \A k \in 1..Len(GenCoherent) : CoherentWeekPattern(GenCoherent[k])
ASSUME RejectedAreRejected == \A k \in 1..Len(GenRejected) : ~CoherentWeekPattern(GenRejected[k])
ASSUME RejectedAreIncoherent == \A k \in 1..Len(GenRejected) : \E day \in GenWitnessDays : Backwards(GenRejected[k], day)

\* bump level: old version rendered for date a, bumped with date b (b may be earlier than a)
NoFlags == [major |-> FALSE, minor |-> FALSE, patch |-> FALSE, tag_num |-> FALSE, pin_increments |-> FALSE, pin_date |-> FALSE, tag |-> NoTag]
BumpNotBackwards(Q, da, db) ==
  LET P == Q \o <<[t |-> "lit", s |-> <<46>>], [t |-> "part", p |-> "INC0"]>>
      t0 == RenderDoc(Cal(da), P)
      out == Incr(t0, P, NoFlags, db, GenToday, Dev) IN
  out = None \/ (LET o == ParseVersion(t0, P, GenToday) w == ParseVersion(out, P, GenToday) IN
                 IsBad(o) \/ IsBad(w) \/ (CalNotBackwards(FieldOrder(P), o, w) /\ VerCmp(t0, out) = -1))
NeverBackwards == (mode = "bump" /\ b # 0) => BumpNotBackwards(GenCoherent[q], a, b)
=============================================================================
