------------------------------- MODULE MC_C11 -------------------------------
(***************************************************************************)
(* C11 - uncommitted changes are never swept into the bump commit.         *)
(* Four files (two carry a version pattern, two do not), each in one of    *)
(* the eleven states git can report, rendered as porcelain lines and read    *)
(* back by the spec's fixed-column parser:                                 *)
(*   NoSweep              an update that is not blocked finds every        *)
(*                        pattern file clean                               *)
(*   DirtyBlocksUnlessAllowed, UntrackedOthersInert                        *)
(*   ParseRecovers        the parser recovers status and path(s) of every  *)
(*                        line (incl. leading blanks and renames)          *)
(***************************************************************************)
EXTENDS BVStatus, TLC
Files == <<"pat1", "pat2", "oth1", "oth2">>
Name(f) == CASE f = "pat1" -> <<112,97,116,49,46,116,120,116>> [] f = "pat2" -> <<115,114,99,47,112,50,46,112,121>>
             [] f = "oth1" -> <<111,49,46,116,120,116>> [] f = "oth2" -> <<77,32,120,46,116,120,116>>     \* "M x.txt": a name that looks like a status line
OldName(f) == <<111,108,100,95>> \o Name(f)
PatternPaths == {Name("pat1"), Name("pat2")}
States == {"clean", " M", "M ", "MM", "A ", "AM", " D", "D ", "R ", "RM", "??"}
XY(s) == CASE s = " M" -> <<32,77>> [] s = "M " -> <<77,32>> [] s = "MM" -> <<77,77>> [] s = "A " -> <<65,32>> [] s = " D" -> <<32,68>>
           [] s = "D " -> <<68,32>> [] s = "R " -> <<82,32>> [] s = "RM" -> <<82,77>> [] s = "AM" -> <<65,77>> [] s = "??" -> <<63,63>>
Line(f, s) == XY(s) \o <<32>> \o (IF s \in {"R ", "RM"} THEN OldName(f) \o <<32,45,62,32>> \o Name(f) ELSE Name(f))
VARIABLES st, allow
Init == st \in [{"pat1", "pat2", "oth1", "oth2"} -> States] /\ allow \in BOOLEAN
Next == FALSE /\ UNCHANGED <<st, allow>>
Dirty == {f \in DOMAIN st : st[f] # "clean"}
Lines == LET fs == SelectSeq(Files, LAMBDA f : st[f] # "clean") IN [q \in 1..Len(fs) |-> Line(fs[q], st[fs[q]])]
B == Blocks(Lines, "git", PatternPaths, allow)
NoSweep == ~B => (st["pat1"] = "clean" /\ st["pat2"] = "clean")
DirtyBlocksUnlessAllowed == (~allow /\ \E f \in Dirty : ~(st[f] = "??" /\ f \in {"oth1", "oth2"})) => B
UntrackedOthersInert == (\A f \in Dirty : st[f] = "??" /\ f \in {"oth1", "oth2"}) => ~B
ParseRecovers == \A q \in 1..Len(Lines) : LET e == ParseLine(Lines[q], "git") f == SelectSeq(Files, LAMBDA x : st[x] # "clean")[q] IN
                    e.xy = XY(st[f]) /\ e.paths[Len(e.paths)] = Name(f) /\ (st[f] \in {"R ", "RM"} => e.paths[1] = OldName(f))
=============================================================================
