------------------------------- MODULE MC_C11 -------------------------------
(***************************************************************************)
(* C11 - uncommitted changes are never swept into the bump commit.         *)
(* Four files (two carry a version pattern, two do not), each in one of    *)
(* the fourteen states git can report, rendered as porcelain lines and read    *)
(* back by the spec's fixed-column parser:                                 *)
(*   NoSweep              an update that is not blocked finds every        *)
(*                        pattern file clean                               *)
(*   DirtyBlocksUnlessAllowed, UntrackedOthersInert                        *)
(*   ParseRecovers        the parser recovers status and path(s) of every  *)
(*                        line (incl. leading blanks and renames)          *)
(***************************************************************************)
EXTENDS BVStatus, TLC
CONSTANT S22      \* model the repaired defect S22 (a quoted path is compared as it stands): TRUE must violate NoSweep (self-test of the invariants)
Files == <<"pat1", "pat2", "oth1", "oth2">>
\* pat2 is "rel notes \303\251.md" (a blank and a non-ASCII letter, UTF-8 bytes): git prints it quoted; oth2 is "M x.txt": a name that looks like a status line (quoted too)
Name(f) == CASE f = "pat1" -> <<112,97,116,49,46,116,120,116>> [] f = "pat2" -> <<114,101,108,32,110,111,116,101,115,32,195,169,46,109,100>>
             [] f = "oth1" -> <<111,49,46,116,120,116>> [] f = "oth2" -> <<77,32,120,46,116,120,116>>
OldName(f) == <<111,108,100,95>> \o Name(f)
PatternPaths == {Name("pat1"), Name("pat2")}
\* " T" / "T " : type change (a file replaced by a symbolic link);  "D?" : removed from the index, kept on disk (git rm --cached) - git reports the path twice, as "D " among the tracked entries and as "??" among the untracked ones at the end
States == {"clean", " M", "M ", "MM", "A ", "AM", " D", "D ", "R ", "RM", "??", "D?", " T", "T "}
XY(s) == CASE s = " M" -> <<32,77>> [] s = "M " -> <<77,32>> [] s = "MM" -> <<77,77>> [] s = "A " -> <<65,32>> [] s = " D" -> <<32,68>>
           [] s = "D " -> <<68,32>> [] s = "R " -> <<82,32>> [] s = "RM" -> <<82,77>> [] s = "AM" -> <<65,77>> [] s = "??" -> <<63,63>> [] s = " T" -> <<32,84>> [] s = "T " -> <<84,32>>
Line(f, s) == XY(s) \o <<32>> \o (IF s \in {"R ", "RM"} THEN GitSpelling(OldName(f)) \o <<32,45,62,32>> \o GitSpelling(Name(f)) ELSE GitSpelling(Name(f)))
VARIABLES st, allow
Init == st \in [{"pat1", "pat2", "oth1", "oth2"} -> States] /\ allow \in BOOLEAN
Next == FALSE /\ UNCHANGED <<st, allow>>
Dirty == {f \in DOMAIN st : st[f] # "clean"}
Tracked == SelectSeq(Files, LAMBDA f : st[f] \notin {"clean", "??"})
Untracked == SelectSeq(Files, LAMBDA f : st[f] \in {"??", "D?"})
Rows == [q \in 1..Len(Tracked) |-> [f |-> Tracked[q], s |-> IF st[Tracked[q]] = "D?" THEN "D " ELSE st[Tracked[q]]]] \o [q \in 1..Len(Untracked) |-> [f |-> Untracked[q], s |-> "??"]]
Lines == [q \in 1..Len(Rows) |-> Line(Rows[q].f, Rows[q].s)]
B == BlocksD(Lines, "git", PatternPaths, allow, S22)
NoSweep == ~B => (st["pat1"] = "clean" /\ st["pat2"] = "clean")
DirtyBlocksUnlessAllowed == (~allow /\ \E f \in Dirty : ~(st[f] = "??" /\ f \in {"oth1", "oth2"})) => B
UntrackedOthersInert == (\A f \in Dirty : st[f] = "??" /\ f \in {"oth1", "oth2"}) => ~B
ParseRecovers == \A q \in 1..Len(Lines) : LET e == ParseLineD(Lines[q], "git", S22) f == Rows[q].f IN
                    e.xy = XY(Rows[q].s) /\ e.paths[Len(e.paths)] = Name(f) /\ (Rows[q].s \in {"R ", "RM"} => e.paths[1] = OldName(f))
=============================================================================
