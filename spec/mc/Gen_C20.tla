---- MODULE Gen_C20 ----
EXTENDS Integers
\* default instance (replaced per run by the harness)
GenPatterns == << <<[t |-> "part", p |-> "pycalver"]>>, <<[t |-> "part", p |-> "semver"]>> >>
GenDays == {737791, 738000}
GenBids == {<<48,48,48,49>>, <<48,57,57,57>>}
GenTags == {"final", "beta"}
GenDerived == << <<[t |-> "part", p |-> "pep440_pycalver"]>> >>
====
