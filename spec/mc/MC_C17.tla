------------------------------- MODULE MC_C17 -------------------------------
(***************************************************************************)
(* C17 - BUILD numbers grow numerically and lexically forever.             *)
(* State: the current BUILD id b (a digit sequence) and whether it was     *)
(* produced by bumpver (gen).  Init: every digit string of length 1..K     *)
(* (zero-padded ones included) and the boundary starts d99..97 of every    *)
(* width up to W.  Next: one bump.  The property is an action property on  *)
(* b -> b' that does not mention how NextBuild computes the successor.     *)
(***************************************************************************)
EXTENDS BVLexId, TLC
CONSTANTS K,      \* exhaustive starts up to this many digits
          W,      \* boundary starts up to this width
          Depth   \* chain length explored from every start
VARIABLES b, gen
vars == <<b, gen>>

AllStarts == UNION {[1..n -> 48..57] : n \in 1..K}
Boundary  == {<<d>> \o [q \in 1..(w-1) |-> IF q = w-1 THEN 55 ELSE 57] : d \in 48..57, w \in 2..W}
Init == b \in AllStarts \cup Boundary /\ gen = FALSE
Next == /\ NextBuild(b) # Overflow
        /\ b' = NextBuild(b) /\ gen' = TRUE
Spec == Init /\ [][Next]_vars

Bounded == TLCGet("level") <= Depth
\* the property (C17), one step at a time
StepOK == [][BuildStepOK(b, b', gen)]_vars
\* the successor is refused exactly at the documented maximum
OverflowOnlyAtAllNines == (NextBuild(b) = Overflow) <=> AllNines(IF Below1000(b) THEN Plus1000(b) ELSE b)
AlwaysDigits == AllDigits(b)
=============================================================================
