------------------------------- MODULE MC_C07 -------------------------------
(***************************************************************************)
(* C07 - literal pattern text matches only itself.                         *)
(* Every literal over printable ASCII without upper-case letters (69       *)
(* symbols; a bracket is the code point, its pattern spelling \[ \] is the *)
(* glue's business) up to length N, against lines within edit distance 1   *)
(* of it: Search(Compile(lit t), line) hits exactly where t occurs.        *)
(***************************************************************************)
EXTENDS BVPattern, TLC
CONSTANT N
Alphabet == (32..126) \ (65..90)
VARIABLE t
Init == t \in {<<c>> : c \in Alphabet}
Next == Len(t) < N /\ \E c \in Alphabet : t' = Append(t, c)

Others(c) == {IF c = 46 THEN 47 ELSE 46, IF c = 120 THEN 121 ELSE 120, 124, 92}   \* a few other symbols incl. regex metacharacters
Lines(s) == {s, <<120>> \o s \o <<121>>, s \o s, <<>>}
            \cup {[s EXCEPT ![q] = c] : q \in 1..Len(s), c \in Others(s[1])}
            \cup {SubSeq(s, 1, q - 1) \o SubSeq(s, q + 1, Len(s)) : q \in 1..Len(s)}
            \cup {SubSeq(s, 1, q) \o <<c>> \o SubSeq(s, q + 1, Len(s)) : q \in 0..Len(s), c \in {46, 120}}
\* where does s occur in line, leftmost (0 = nowhere)
FirstOcc(s, line) == IF Occurrences(line, s) = {} THEN 0 ELSE CHOOSE q \in Occurrences(line, s) : \A r \in Occurrences(line, s) : q <= r
LiteralMeansItself ==
  \A line \in Lines(t) :
     LET m == Search(Compile(<<L(t)>>), line) o == FirstOcc(t, line) IN
     IF o = 0 THEN ~m.ok ELSE m.ok /\ m.start = o /\ m.end = o + Len(t)
\* anchors: ^t$ matches only the whole line
AnchoredMeansWholeLine ==
  \A line \in Lines(t) : Search(Compile(<<BOL, L(t), EOL>>), line).ok <=> (line = t \/ line = t \o <<10>>)
=============================================================================
