------------------------------- MODULE MC_C20 -------------------------------
(***************************************************************************)
(* C20 - legacy {...} patterns render, read back and increase consistently.*)
(* Patterns x dates x build ids x tags x flag sets (layered):              *)
(*   RoundTripV1       the rendering of a state is accepted by its pattern *)
(*                     and reads back with the same parts                  *)
(*   StrictlyGreaterV1 a bumped version is greater under VerCmp (and, for  *)
(*                     {pycalver}, as a plain string)                      *)
(***************************************************************************)
EXTENDS BVLegacy, BVPep440, TLC, Gen_C20
VARIABLES p, d, v, f, lvl
vars == <<p, d, v, f, lvl>>
NoV == [none |-> TRUE]
NoF == [none |-> TRUE]
StateAt(day, bid, tag, mj, mi, pa) == CalOf(day) @@ [major |-> mj, minor |-> mi, patch |-> pa, bid |-> bid, tag |-> tag]
FlagSets == [major : BOOLEAN, minor : BOOLEAN, patch : BOOLEAN, pin_date : BOOLEAN, tag : {"none", "final", "beta", "rc"}]
\* flags address parts the pattern shows (the CLI does not validate this for legacy patterns; a --major on a pattern without
\* {MAJOR} resets MINOR/PATCH and lowers the version, which only the gate stops - C01)
FieldsOf(PT) == {Field(Expand(PT)[q].p) : q \in {r \in 1..Len(Expand(PT)) : Expand(PT)[r].t = "part"}}
Applicable(PT, g) == (g.major => "major" \in FieldsOf(PT)) /\ (g.minor => "minor" \in FieldsOf(PT)) /\ (g.patch => "patch" \in FieldsOf(PT))
Init == p \in 1..Len(GenPatterns) /\ d \in GenDays /\ v = NoV /\ f = NoF /\ lvl = 0
Next == \/ lvl = 0 /\ v' \in {StateAt(d, b, tg, 1, mi, pa) : b \in GenBids, tg \in GenTags, mi \in {0, 9}, pa \in {0, 10}} /\ lvl' = 1 /\ UNCHANGED <<p, d, f>>
        \/ lvl = 1 /\ f' \in {g \in FlagSets : Applicable(GenPatterns[p], g)} /\ lvl' = 2 /\ UNCHANGED <<p, d, v>>

HasRel(PT) == \E q \in 1..Len(Expand(PT)) : Expand(PT)[q].t = "rel" \/ (Expand(PT)[q].t = "part" /\ Expand(PT)[q].p = "tag")
IsPycalver(PT) == PT = <<[t |-> "part", p |-> "pycalver"]>>
RoundTrip(PT, st) ==
  LET t == Render(st, PT) back == Parse(t, PT) ps == Expand(PT) IN
  IF IsBad(back) THEN "not-accepted"
  ELSE IF \E q \in 1..Len(ps) : ps[q].t = "part" /\ Fmt(ps[q].p, back) # Fmt(ps[q].p, st) THEN "part-changed"
  ELSE IF Render(back, PT) # t THEN "rerender" ELSE "ok"
CaseVerdict ==
  LET PT == GenPatterns[p] IN
  IF lvl = 1 THEN RoundTrip(PT, v)
  ELSE LET t0 == Render(v, PT) out == Incr(t0, PT, f, d + 40) IN
       IF out = None \/ out = <<0, 0>> THEN "ok"
       ELSE IF VerCmp(t0, out) # -1 THEN (IF f.tag # "none" /\ HasRel(PT) THEN "ok" ELSE "not-greater")      \* a tag downgrade is the gate's business (C01)
       ELSE IF IsPycalver(PT) /\ f.tag = "none" /\ LexCmp(t0, out) # -1 THEN "not-lexically-greater"
       ELSE LET back == Parse(out, PT) IN IF IsBad(back) THEN "bumped-not-accepted" ELSE RoundTrip(PT, back)
\* the derived search patterns: whatever tag the version carries, the rendered text is found in full by its own pattern
AllTags == {"final", "alpha", "beta", "rc", "dev", "post"}
DerivedAccepted == lvl = 1 => \A q \in 1..Len(GenDerived), tg \in AllTags :
                      LET st == [v EXCEPT !.tag = tg] IN ~IsBad(Parse(Render(st, GenDerived[q]), GenDerived[q]))
LegacyConsistent == lvl >= 1 => LET c == CaseVerdict IN c = "ok" \/ (PrintT(<<"FAILED-CLAUSE", c>>) /\ FALSE)
=============================================================================
