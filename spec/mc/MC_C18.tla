------------------------------- MODULE MC_C18 -------------------------------
(***************************************************************************)
(* C18 - the same configuration means the same thing in every config       *)
(* format.  Abstract configurations over booleans {absent,true,false}^3 x  *)
(* tag scopes x file-entry shapes; for every format and every accepted     *)
(* spelling of each boolean, the reader model of that syntax yields        *)
(* Effective(A):                                                           *)
(*   FormatIndependent, TagPushRequireCommit, DefaultsWhenAbsent           *)
(***************************************************************************)
EXTENDS BVConfig, TLC
Formats == {"setup.cfg[bumpver]", "setup.cfg[pycalver]", "pyproject.toml", "bumpver.toml", ".bumpver.toml", "pycalver.toml"}
Syntax(f) == IF f \in {"setup.cfg[bumpver]", "setup.cfg[pycalver]"} THEN "cfg" ELSE "toml"
Tri == {"absent", "true", "false"}
FileShapes == { <<>>, << <<"a.txt", <<"{version}">> >> >>, << <<"a.txt", <<"{version}", "{pep440_version}">> >>, <<"src/*.py", <<"x = {version}">> >> >> }
VARIABLES A, fmt, sp
vars == <<A, fmt, sp>>
Init == /\ A \in [version : {"1.2.3"}, pattern : {"MAJOR.MINOR.PATCH"}, commit_message : {Absent, "msg {new_version}"}, tag_message : {Absent},
                  tag_scope : {Absent, "default", "global", "branch"}, pre : {Absent}, post : {Absent, "hook.sh"},
                  commit : Tri, tag : Tri, push : Tri, files : FileShapes]
        /\ fmt \in Formats /\ sp = <<>>
\* choose a spelling for each present boolean (one step per key)
Keys == <<"commit", "tag", "push">>
Next == /\ Len(sp) < 3
        /\ LET k == Keys[Len(sp) + 1] IN
           IF A[k] = Absent THEN sp' = Append(sp, Absent)
           ELSE \E s \in Spellings(Syntax(fmt), A[k] = "true") : sp' = Append(sp, s)
        /\ UNCHANGED <<A, fmt>>
\* the reader of the syntax: booleans from their spelling, absent -> false, everything else as written
Read(q) == IF sp[q] = Absent THEN FALSE ELSE ReadBool(Syntax(fmt), sp[q])
Loaded == LET c == Read(1) t == Read(2) p == Read(3) sc == Default(A.tag_scope, "default") IN
  IF (t \/ p) /\ ~c THEN Invalid ELSE
  [valid |-> TRUE, version |-> A.version, pattern |-> A.pattern, commit_message |-> Default(A.commit_message, DefaultCommitMessage),
   tag_message |-> Default(A.tag_message, DefaultTagMessage), tag_scope |-> sc, pre |-> Default(A.pre, ""), post |-> Default(A.post, ""),
   commit |-> c, tag |-> t, push |-> p, files |-> Effective(A).files]
FormatIndependent == Len(sp) = 3 => Loaded = Effective(A)
TagPushRequireCommit == LET e == Effective(A) IN e.valid => ((e.tag \/ e.push) => e.commit)
DefaultsWhenAbsent == LET e == Effective(A) IN (e.valid /\ A.commit = Absent) => ~e.commit /\ ~e.tag /\ ~e.push
=============================================================================
