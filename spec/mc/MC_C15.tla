------------------------------- MODULE MC_C15 -------------------------------
(***************************************************************************)
(* C15 - {pep440_version} always denotes the same version as {version}.    *)
(* Design level: for the README's own derivation DP = Pep440Pattern(P),    *)
(* every pattern of the instance and every read-back state, the text       *)
(* rendered through DP satisfies the predicates of the property.  A zero-  *)
(* padded part for which the rules name no unpadded substitute shows here  *)
(* before any code runs.                                                   *)
(***************************************************************************)
EXTENDS BVDerived, TLC, Gen_C02
VARIABLES p, d, v, lvl
vars == <<p, d, v, lvl>>
NoV == [none |-> TRUE]
Base(day) == CalInfo(day) @@ [major |-> 0, minor |-> 0, patch |-> 0, bid |-> <<49,48,48,49>>, tag |-> "final", pytag |-> "", num |-> 0, inc0 |-> 0, inc1 |-> 1]
StatesFor(P, day) ==
  LET F == FieldSet(P) N(fld) == IF fld \in F THEN GenNums ELSE {0} IN
  LET All == { [Base(day) EXCEPT !.major = mj, !.minor = mi, !.patch = pa, !.tag = tg, !.pytag = PyTagOfTag[tg], !.num = nu, !.inc0 = i0, !.inc1 = i0 + 1, !.bid = b] :
      mj \in N("major"), mi \in N("minor"), pa \in N("patch"), tg \in (IF "tag" \in F \/ "pytag" \in F THEN TagNames ELSE {"final"}),
      nu \in (IF "num" \in F THEN {0, 10} ELSE {0}), i0 \in (IF "inc0" \in F \/ "inc1" \in F THEN {0, 9} ELSE {0}),
      b \in (IF "bid" \in F THEN GenBuilds ELSE {<<49,48,48,49>>}) }
  IN {st \in All : st.tag = "final" => st.num = 0}
Init == p \in 1..Len(GenPatterns) /\ d \in GenDates /\ v = NoV /\ lvl = 0
Next == lvl = 0 /\ v' \in StatesFor(GenPatterns[p], d) /\ lvl' = 1 /\ UNCHANGED <<p, d>>

CaseVerdict ==
  LET P == GenPatterns[p] t == Render(v, P) IN
  IF t = <<>> THEN "ok:empty" ELSE
  LET back == ParseVersion(t, P, GenToday) IN
  IF IsBad(back) THEN "ok:unreadable" ELSE
  LET DP == Pep440Pattern(P) u == Render(back, DP) IN
  C15Clause(back, P, DP, t, u, Canon(t), TRUE)
IsFine(c) == c = "ok" \/ (Len(c) >= 3 /\ SubSeq(c, 1, 3) = "ok:")
\* (finding S10 - 0Y / 0G had no unpadded substitute - is repaired: the substitution table of BVParts lists them)
S18Gap == GluedParts(GenPatterns[p])
DerivationSatisfiesC15 == lvl = 1 => LET c == CaseVerdict IN
    IsFine(c) \/ (c \in {"not-the-same-version", "written-text-not-pep440"} /\ S18Gap) \/ (PrintT(<<"FAILED-CLAUSE", c>>) /\ FALSE)
=============================================================================
