------------------------------- MODULE MC_C03 -------------------------------
(***************************************************************************)
(* C03 / C04 / C13 - design-level check of the rewrite operator.           *)
(* mode "layout": files of up to NLines lines; each line is one of the     *)
(*   line kinds below (filler, an occurrence of pattern A and/or B in      *)
(*   either order, apart or touching, with text around); all three separators, with / without *)
(*   trailing separator, mixed endings inside filler.  Invariants state    *)
(*   the properties on (old text, new text) without reference to how       *)
(*   Rewrite builds the result:                                            *)
(*     NoStaleOccurrence : searching the NEW text, every configured        *)
(*        pattern's match on every line shows the new version  (C03)       *)
(*     OnlySpansChange   : the new text is the old text outside the        *)
(*        matched spans, code point for code point          (C04)          *)
(*     DiffRoundTrip     : a minimal diff of old and new applied to old    *)
(*        gives new (ApplyHunks is the inverse of a line diff) (C13)       *)
(* mode "text": every text over {a, CR, LF} up to NText symbols:           *)
(*     Join(Split(t)) = t   (identity of the split/join round trip)        *)
(***************************************************************************)
EXTENDS BVRewrite, TLC
CONSTANTS NLines, NText,
          S2,     \* model the repaired defect S2 (last match of a line wins): TRUE must violate NoStaleOccurrence (self-test of the invariants)
          S20     \* model the repaired defect S20 (a match touching an earlier one is suppressed): TRUE must violate NoStaleOccurrence

T(n) == <<n>>
\* pattern A: ver=MAJOR.MINOR      pattern B: pep MAJOR-MINOR!     (different patterns, may share a line)
PA == <<L(<<118,101,114,61>>), Pt("MAJOR"), L(<<46>>), Pt("MINOR")>>
PB == <<L(<<112,101,112,32>>), Pt("MAJOR"), L(<<45>>), Pt("MINOR"), L(<<33>>)>>
Pats == <<PA, PB>>
Base == [year_y |-> NA, year_g |-> NA, quarter |-> NA, month |-> NA, dom |-> NA, doy |-> NA, week_w |-> NA, week_u |-> NA, week_v |-> NA,
         major |-> 1, minor |-> 9, patch |-> 0, bid |-> <<49,48,48,49>>, tag |-> "final", pytag |-> "", num |-> 0, inc0 |-> 0, inc1 |-> 1]
Old == Base
New == [Base EXCEPT !.minor = 10]          \* 1.9 -> 1.10 : the replacement is longer than what it replaces
A == Render(Old, PA)
B == Render(Old, PB)
SP == <<32>>
LineKinds == << <<>>, <<120, 121>>, A, B, A \o SP \o B, B \o SP \o A, A \o B, B \o A, <<120>> \o A \o <<121>>, A \o <<32, 45, 32>> \o B \o <<59>>, <<118,101,114,61>>, <<120, LF, 121>>, <<120, CR, 121>> >>
Seps == << <<LF>>, <<CR, LF>>, <<CR>> >>

VARIABLES mode, ks, sep, trail, t
vars == <<mode, ks, sep, trail, t>>
Init == \/ mode = "layout" /\ ks = <<>> /\ sep \in 1..3 /\ trail \in BOOLEAN /\ t = <<>>
        \/ mode = "text" /\ ks = <<>> /\ sep = 0 /\ trail = FALSE /\ t = <<>>
Next == \/ mode = "layout" /\ Len(ks) < NLines /\ \E k \in 1..Len(LineKinds) : ks' = Append(ks, k) /\ UNCHANGED <<mode, sep, trail, t>>
        \/ mode = "text" /\ Len(t) < NText /\ \E c \in {97, CR, LF} : t' = Append(t, c) /\ UNCHANGED <<mode, ks, sep, trail>>

\* a layout is admissible if the separator detected in the text is the one used to build it, and both patterns occur
Text == Join([q \in 1..Len(ks) |-> LineKinds[ks[q]]], Seps[sep]) \o (IF trail THEN Seps[sep] ELSE <<>>)
Admissible == mode = "layout" /\ ks # <<>> /\ LineSep(Text) = Seps[sep]

NoStaleOccurrence == Admissible =>
  LET r == Rewrite(Text, Pats, New, [s2 |-> S2, s20 |-> S20]) IN
  r.ok => LET nl == SplitBy(r.text, LineSep(Text)) ol == SplitBy(Text, LineSep(Text)) IN
          \A i \in 1..Len(ol) : \A k \in 1..2 :
             LET mo == Search(Compile(Pats[k]), ol[i]) mn == Search(Compile(Pats[k]), nl[i]) IN
             mo.ok => (mn.ok /\ SubSeq(nl[i], mn.start, mn.end - 1) = Render(New, Pats[k]))
OnlySpansChange == Admissible =>
  LET r == Rewrite(Text, Pats, New, [s2 |-> S2, s20 |-> S20]) IN
  r.ok => LET s == LineSep(Text) nl == SplitBy(r.text, s) ol == SplitBy(Text, s) IN
          /\ Len(nl) = Len(ol) /\ LineSep(r.text) = s
          /\ \A i \in 1..Len(ol) : OnlySpansChanged(ol[i], nl[i], KeptOfLine(r.kept, i))
          /\ \A i \in 1..Len(ol) : KeptOfLine(r.kept, i) = <<>> => nl[i] = ol[i]
MissingPatternRefused == Admissible =>
  LET r == Rewrite(Text, Pats, New, [s2 |-> S2, s20 |-> S20]) IN
  r.ok <=> \A k \in 1..2 : \E i \in 1..Len(Lines(Text)) : Search(Compile(Pats[k]), Lines(Text)[i]).ok
\* the simplest faithful diff: one hunk per changed line; applying it to the old lines gives the new lines
DiffRoundTrip == Admissible =>
  LET r == Rewrite(Text, Pats, New, [s2 |-> S2, s20 |-> S20]) IN
  r.ok => LET s == LineSep(Text) nl == SplitBy(r.text, s) ol == SplitBy(Text, s)
              ch == SelectSeq([i \in 1..Len(ol) |-> i], LAMBDA i : ol[i] # nl[i])
              hunks == [q \in 1..Len(ch) |-> [a |-> ch[q], na |-> 1, b |-> ch[q], nb |-> 1, body |-> <<[k |-> "-", s |-> ol[ch[q]]], [k |-> "+", s |-> nl[ch[q]]]>>]]
              ap == ApplyHunks(ol, hunks) IN
          ap.ok /\ ap.lines = nl
SplitJoinIdentity == mode = "text" => Join(SplitBy(t, LineSep(t)), LineSep(t)) = t
SepPrecedence == mode = "text" => (LineSep(t) = <<CR, LF>> <=> HasCRLF(t)) /\ (LineSep(t) = <<LF>> <=> ~HasCR(t))
=============================================================================
