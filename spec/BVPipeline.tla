------------------------------ MODULE BVPipeline ------------------------------
(***************************************************************************)
(* Level 1: the VCS side of `bumpver update` (README "Bump It Up",         *)
(* "VCS Parameters").  A configuration c is a record                       *)
(*   vcs        "git" | "hg"                                               *)
(*   cfg        <<commit, tag, push>> of the config file (tag/push need    *)
(*              commit; other triples are rejected by the config loader)   *)
(*   fcommit, ftag, fpush   tri-state flags "unset" | "yes" | "no"         *)
(*   pre, post  hooks "absent" | "ok" | "fail" (runs, exits non-zero) |     *)
(*              "unstartable" (the file exists but cannot be executed);    *)
(*              hooksrc "config" | "cli"                                   *)
(*   dirty, allow, tagmsg, remote, dry, fetch   booleans                   *)
(*   dirtypat   (optional) a file that carries a pattern is dirty          *)
(*   ignore     --ignore-vcs-tag (the start version is the config value:   *)
(*              no fetch, no tag listing)                                  *)
(*   unique     the uniqueness check is demanded (--set-version or tag     *)
(*              scope branch); it also runs under --ignore-vcs-tag (since  *)
(*              the repair of S14): one more tag listing, never a fetch    *)
(*   failat     the VCS command that fails ("none" for none)               *)
(* Expected(c) is the observable run, stated declaratively: the ordered    *)
(* log is the full step list of the merged configuration cut after the     *)
(* first failing step.                                                     *)
(***************************************************************************)
EXTENDS Naturals, Sequences, FiniteSets

Tri == {"unset", "yes", "no"}
Hook == {"absent", "ok", "fail", "unstartable"}
HookFails(h) == h \in {"fail", "unstartable"}        \* "fail": the hook process ends in any way other than with status 0 (non-zero exit, killed by a signal); a hook that cannot be started stops the run in the same way
CfgTriples == {<<c, t, p>> \in BOOLEAN \X BOOLEAN \X BOOLEAN : (t \/ p) => c}
Failable == {"none", "fetch", "lstags", "status", "add", "commit", "tag", "push"}

Flag(tri, dflt) == IF tri = "unset" THEN dflt ELSE tri = "yes"
MCommit(c) == Flag(c.fcommit, c.cfg[1])
MTag(c)    == Flag(c.ftag, c.cfg[2])
MPush(c)   == Flag(c.fpush, c.cfg[3])
\* rejected before anything happens
Contradiction(c) == \/ c.fcommit = "no" /\ (c.ftag = "yes" \/ c.fpush = "yes")
                    \/ ~MCommit(c) /\ (c.ftag = "yes" \/ c.fpush = "yes")

TagName(c)  == IF c.tagmsg THEN "tag" ELSE "tag_light"
PushName(c) == IF MTag(c) THEN "push_tag" ELSE "push"
Opt(b, name) == IF b THEN <<name>> ELSE <<>>
\* every step of a run in which nothing fails
FullSteps(c) ==
  Opt(c.fetch /\ c.remote /\ ~c.ignore, "fetch") \o Opt(~c.ignore, "lstags") \o Opt(c.unique \/ c.ignore, "lstags")
  \o (IF c.dry THEN <<>>
      ELSE IF ~MCommit(c) THEN <<"write">>
      ELSE <<"status", "write">> \o Opt(c.pre # "absent", "prehook") \o <<"add", "commit">> \o Opt(c.post # "absent", "posthook")
           \o Opt(MTag(c), TagName(c)) \o Opt(MPush(c) /\ c.remote, PushName(c)))
\* the dirty check: unrelated uncommitted changes block unless --allow-dirty; an uncommitted change of a file that carries a pattern blocks in any case
DirtyPat(c) == IF "dirtypat" \in DOMAIN c THEN c.dirtypat ELSE FALSE
DirtyBlocks(c) == DirtyPat(c) \/ (c.dirty /\ ~c.allow)
StepFails(c, name) ==
  \/ name = c.failat
  \/ name \in {"tag", "tag_light"} /\ c.failat = "tag"
  \/ name \in {"push", "push_tag"} /\ c.failat = "push"
  \/ name = "status" /\ DirtyBlocks(c)
  \/ name = "prehook" /\ HookFails(c.pre)
  \/ name = "posthook" /\ HookFails(c.post)
FirstFail(c) == LET s == FullSteps(c) bad == {q \in 1..Len(s) : StepFails(c, s[q])} IN
                IF bad = {} THEN 0 ELSE CHOOSE q \in bad : \A r \in bad : q <= r
RECURSIVE CollapseTags(_)
CollapseTags(s) == IF Len(s) < 2 THEN s ELSE IF s[1] = "lstags" /\ s[2] = "lstags" THEN CollapseTags(Tail(s)) ELSE <<s[1]>> \o CollapseTags(Tail(s))
Expected(c) ==
  IF Contradiction(c) THEN [log |-> <<>>, exit0 |-> FALSE, changed |-> FALSE]
  ELSE LET s == FullSteps(c) k == FirstFail(c) done == IF k = 0 THEN s ELSE SubSeq(s, 1, k) IN
       [log |-> CollapseTags(SelectSeq(done, LAMBDA x : x # "write")), exit0 |-> k = 0, changed |-> \E q \in 1..Len(done) : done[q] = "write"]
=============================================================================
