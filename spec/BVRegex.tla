------------------------------- MODULE BVRegex -------------------------------
(***************************************************************************)
(* Level 0: semantics of the regular-expression subset that bumpver        *)
(* generates, as a backtracking matcher defines it (Python `re`):          *)
(* literal, class, ordered alternation, greedy ? * + {m,n}, named groups,  *)
(* ^ and $.                                                                *)
(*                                                                         *)
(* Ends(n, s, i, caps) is the PRIORITY-ORDERED sequence of <<end, caps>>   *)
(* pairs: every way node n can match text s starting at position i, in the *)
(* order a backtracking engine tries them.  The first element is what      *)
(* re.match reports.  Positions are 1-based; `end` is one past the match.  *)
(***************************************************************************)
EXTENDS Integers, Sequences, TLC, FiniteSets

Chr(c)      == [k |-> "chr", c |-> c]
Set(S)      == [k |-> "set", s |-> S]
NotSet(S)   == [k |-> "nset", s |-> S]
AnyCh       == [k |-> "any"]                               \* . (anything but newline)
Cat(xs)     == [k |-> "cat", xs |-> xs]
Alt(xs)     == [k |-> "alt", xs |-> xs]
Opt(x)      == [k |-> "opt", x |-> x]
Rep(x,m,n)  == [k |-> "rep", x |-> x, lo |-> m, hi |-> n]   \* hi = 0 : unbounded
Grp(nm, x)  == [k |-> "grp", nm |-> nm, x |-> x]
Eol         == [k |-> "eol"]
Bol         == [k |-> "bol"]
Lit(cs)     == Cat([q \in 1..Len(cs) |-> Chr(cs[q])])

RECURSIVE Ends(_,_,_,_), CatEnds(_,_,_,_,_), AltEnds(_,_,_,_,_), RepEnds(_,_,_,_,_), FlatMap(_,_,_,_,_), RepMap(_,_,_,_,_)

Ends(n, s, i, caps) ==
  CASE n.k = "chr"  -> IF i <= Len(s) /\ s[i] = n.c THEN << <<i+1, caps>> >> ELSE <<>>
    [] n.k = "set"  -> IF i <= Len(s) /\ s[i] \in n.s THEN << <<i+1, caps>> >> ELSE <<>>
    [] n.k = "nset" -> IF i <= Len(s) /\ s[i] \notin n.s THEN << <<i+1, caps>> >> ELSE <<>>
    [] n.k = "any"  -> IF i <= Len(s) /\ s[i] # 10 THEN << <<i+1, caps>> >> ELSE <<>>
    \* $ matches at the end and just before a final newline
    [] n.k = "eol"  -> IF i = Len(s) + 1 \/ (i = Len(s) /\ s[i] = 10) THEN << <<i, caps>> >> ELSE <<>>
    [] n.k = "bol"  -> IF i = 1 THEN << <<i, caps>> >> ELSE <<>>
    [] n.k = "cat"  -> CatEnds(n.xs, 1, s, i, caps)
    [] n.k = "alt"  -> AltEnds(n.xs, 1, s, i, caps)              \* left alternative first
    [] n.k = "opt"  -> Ends(n.x, s, i, caps) \o << <<i, caps>> >> \* greedy: body first, then skip
    [] n.k = "rep"  -> RepEnds(n, 0, s, i, caps)
    [] n.k = "grp"  -> LET rs == Ends(n.x, s, i, caps)
                       IN [r \in 1..Len(rs) |-> <<rs[r][1], (n.nm :> SubSeq(s, i, rs[r][1]-1)) @@ rs[r][2]>>]

FlatMap(rs, xs, p, s, r) ==
  IF r > Len(rs) THEN <<>>
  ELSE CatEnds(xs, p, s, rs[r][1], rs[r][2]) \o FlatMap(rs, xs, p, s, r+1)

CatEnds(xs, p, s, i, caps) ==
  IF p > Len(xs) THEN << <<i, caps>> >>
  ELSE FlatMap(Ends(xs[p], s, i, caps), xs, p+1, s, 1)

AltEnds(xs, p, s, i, caps) ==
  IF p > Len(xs) THEN <<>> ELSE Ends(xs[p], s, i, caps) \o AltEnds(xs, p+1, s, i, caps)

RepMap(rs, n, cnt, s, r) ==
  IF r > Len(rs) THEN <<>>
  ELSE RepEnds(n, cnt, s, rs[r][1], rs[r][2]) \o RepMap(rs, n, cnt, s, r+1)

\* greedy repetition: one more iteration first (an iteration must make progress), then stop
RepEnds(n, cnt, s, i, caps) ==
  LET more == IF n.hi = 0 \/ cnt < n.hi
              THEN LET rs == Ends(n.x, s, i, caps)
                       ps == SelectSeq(rs, LAMBDA r : r[1] > i)
                   IN RepMap(ps, n, cnt+1, s, 1)
              ELSE <<>>
      stop == IF cnt >= n.lo THEN << <<i, caps>> >> ELSE <<>>
  IN more \o stop

NoMatch == [ok |-> FALSE]
Hit(i, r) == [ok |-> TRUE, start |-> i, end |-> r[1], caps |-> r[2]]

\* re.match: anchored at the start, first result in priority order
Match(n, s) == LET rs == Ends(n, s, 1, <<>>) IN IF rs = <<>> THEN NoMatch ELSE Hit(1, rs[1])

\* bumpver's "complete match" rule: the FIRST result of re.match must span the text
\* (this is weaker than re.fullmatch, which would backtrack into later results)
FirstMatchSpans(n, s) == LET m == Match(n, s) IN m.ok /\ m.end = Len(s) + 1

\* re.fullmatch: some result spans the text
FullMatch(n, s) == \E r \in 1..Len(Ends(n, s, 1, <<>>)) : Ends(n, s, 1, <<>>)[r][1] = Len(s) + 1

\* re.search: leftmost start, first result at that start
RECURSIVE SearchFrom(_,_,_)
SearchFrom(n, s, i) == IF i > Len(s) + 1 THEN NoMatch
                       ELSE LET rs == Ends(n, s, i, <<>>) IN
                            IF rs # <<>> THEN Hit(i, rs[1]) ELSE SearchFrom(n, s, i + 1)
Search(n, s) == SearchFrom(n, s, 1)
=============================================================================
