------------------------------- MODULE BVLexId -------------------------------
(***************************************************************************)
(* Level 0: the BUILD successor (README "BUILD": lexical ids).             *)
(* Ids are digit sequences, never numbers (they may exceed 2^31 and their  *)
(* leading zeros are significant).                                         *)
(*   next id   = id + 1 at the same width; when that changes the leading   *)
(*               digit the value is multiplied by 11 (one digit longer,    *)
(*               first digit repeated: 0999 -> 11000, 1999 -> 22000)       *)
(*   overflow  = the id is all nines (documented maximum)                  *)
(*   bumpver   : ids whose VALUE is below 1000 are lifted by 1000 first    *)
(***************************************************************************)
EXTENDS BVText

\* decimal increment on a digit sequence, keeping the width (grows by one on carry out)
RECURSIVE IncDigits(_)
IncDigits(d) == IF d = <<>> THEN <<49>>
                ELSE IF d[Len(d)] < 57 THEN [d EXCEPT ![Len(d)] = @ + 1]
                ELSE IncDigits(SubSeq(d, 1, Len(d)-1)) \o <<48>>
AllNines(d) == \A q \in 1..Len(d) : d[q] = 57

\* a + b on digit sequences of equal length
RECURSIVE AddDigits(_,_,_)
AddDigits(a, b, carry) ==
  IF a = <<>> THEN (IF carry = 1 THEN <<49>> ELSE <<>>)
  ELSE LET s == (a[Len(a)] - 48) + (b[Len(b)] - 48) + carry
       IN AddDigits(SubSeq(a,1,Len(a)-1), SubSeq(b,1,Len(b)-1), s \div 10) \o <<48 + (s % 10)>>
Times11(d) == AddDigits(d \o <<48>>, <<48>> \o d, 0)

Overflow == <<>>                       \* "no successor": not a digit sequence
\* lexid.next_id
NextId(d) == IF AllNines(d) THEN Overflow
             ELSE LET n == IncDigits(d)
                  IN IF Len(n) = Len(d) /\ n[1] = d[1] THEN n ELSE Times11(DropZeros(n))

\* bumpver lifts ids whose value is below 1000 ("prevent truncation of leading zeros")
Below1000(d) == Len(DropZeros(d)) <= 3
Plus1000(d)  == <<49>> \o Pad(DropZeros(d), 3)
NextBuild(d) == NextId(IF Below1000(d) THEN Plus1000(d) ELSE d)

(***************************************************************************)
(* Property C17, stated on one step b -> b' (independent of NextBuild).    *)
(***************************************************************************)
IntLess(a, b) == NatCmp(a, b) = -1
LexLess(a, b) == LexCmp(a, b) = -1
\* an id "has the generated shape" if its value is at least 1000 and it has no leading zero,
\* or it is a zero-padded id of at least four digits whose value is at least 1000
BuildStepOK(b, n, generated) ==
  /\ AllDigits(n)
  /\ IntLess(b, n)
  /\ (generated \/ Len(b) >= 4) => LexLess(b, n)
  /\ ~Below1000(b) => Len(n) >= Len(b)           \* leading zeros are never lost
=============================================================================
