-------------------------------- MODULE BVVcs --------------------------------
(***************************************************************************)
(* Level 0/1: how values reach the VCS (property C12).                     *)
(* A command is a list of fixed words and typed holes; Argv substitutes    *)
(* each hole by EXACTLY ONE argument, whatever the value contains.         *)
(* RenderMsg gives the message templates their meaning (README "VCS        *)
(* Parameters": {new_version} {old_version} {new_version_pep440}           *)
(* {old_version_pep440}; on the command line the words OLD / NEW stand for *)
(* the old / new version).  Texts are code point sequences.                *)
(***************************************************************************)
EXTENDS BVText

\* fixed words as code point sequences
W_git == <<103,105,116>>   \* git
W_hg == <<104,103>>   \* hg
W_add == <<97,100,100>>   \* add
W_update == <<45,45,117,112,100,97,116,101>>   \* --update
W_commit == <<99,111,109,109,105,116>>   \* commit
W_message == <<45,45,109,101,115,115,97,103,101>>   \* --message
W_tag == <<116,97,103>>   \* tag
W_annotate == <<45,45,97,110,110,111,116,97,116,101>>   \* --annotate
W_push == <<112,117,115,104>>   \* push
W_followtags == <<45,45,102,111,108,108,111,119,45,116,97,103,115>>   \* --follow-tags
W_HEAD == <<72,69,65,68>>   \* HEAD
W_logfile == <<45,45,108,111,103,102,105,108,101>>   \* --logfile
W(cps) == [w |-> cps]           \* fixed word
H(name) == [h |-> name]          \* hole
Template(tool, name) ==
  IF tool = "git" THEN
    CASE name = "add_path"  -> <<W(W_git), W(W_add), W(W_update), H("path")>>
      [] name = "commit"    -> <<W(W_git), W(W_commit), W(W_message), H("message")>>
      [] name = "tag"       -> <<W(W_git), W(W_tag), W(W_annotate), H("tag"), W(W_message), H("message")>>
      [] name = "tag_light" -> <<W(W_git), W(W_tag), H("tag")>>
      [] name = "push_tag"  -> <<W(W_git), W(W_push), H("remote"), W(W_followtags), H("tag"), W(W_HEAD)>>
      [] name = "push"      -> <<W(W_git), W(W_push), H("remote"), W(W_HEAD)>>
  ELSE
    CASE name = "add_path"  -> <<W(W_hg), W(W_add), H("path")>>
      [] name = "commit"    -> <<W(W_hg), W(W_commit), W(W_logfile), H("logfile")>>     \* the message travels in the file
      [] name = "tag"       -> <<W(W_hg), W(W_tag), H("tag"), W(W_message), H("message")>>
      [] name = "tag_light" -> <<W(W_hg), W(W_tag), H("tag")>>
      [] name = "push_tag"  -> <<W(W_hg), W(W_push), H("tag")>>
      [] name = "push"      -> <<W(W_hg), W(W_push)>>
\* argv as a sequence of texts
Argv(tool, name, values) ==
  LET tp == Template(tool, name) IN [q \in 1..Len(tp) |-> IF "h" \in DOMAIN tp[q] THEN values[tp[q].h] ELSE tp[q].w]

(***************************************************************************)
(* Message templates.                                                      *)
(***************************************************************************)
Placeholders == <<"new_version_pep440", "old_version_pep440", "new_version", "old_version", "NEW_VERSION", "OLD_VERSION">>
\* the text of a placeholder name as code points (ASCII)
NameText(n) == CASE n = "new_version" -> <<110,101,119,95,118,101,114,115,105,111,110>>
                 [] n = "old_version" -> <<111,108,100,95,118,101,114,115,105,111,110>>
                 [] n = "new_version_pep440" -> <<110,101,119,95,118,101,114,115,105,111,110,95,112,101,112,52,52,48>>
                 [] n = "old_version_pep440" -> <<111,108,100,95,118,101,114,115,105,111,110,95,112,101,112,52,52,48>>
                 [] n = "NEW_VERSION" -> <<78,69,87,95,86,69,82,83,73,79,78>>
                 [] n = "OLD_VERSION" -> <<79,76,68,95,86,69,82,83,73,79,78>>
ValueOf(n, kw) == CASE n \in {"new_version", "NEW_VERSION"} -> kw.new [] n \in {"old_version", "OLD_VERSION"} -> kw.old
                    [] n = "new_version_pep440" -> kw.newpep [] n = "old_version_pep440" -> kw.oldpep
\* {name} -> value, {{ -> {, }} -> }   (a template with any other brace is outside the documented placeholders: BadTemplate)
BadTemplate == <<0>>
RECURSIVE Fmt(_,_,_)
Fmt(t, q, kw) ==
  IF q > Len(t) THEN <<>>
  ELSE IF t[q] = 123 /\ q < Len(t) /\ t[q+1] = 123 THEN LET r == Fmt(t, q + 2, kw) IN IF r = BadTemplate THEN r ELSE <<123>> \o r
  ELSE IF t[q] = 125 /\ q < Len(t) /\ t[q+1] = 125 THEN LET r == Fmt(t, q + 2, kw) IN IF r = BadTemplate THEN r ELSE <<125>> \o r
  ELSE IF t[q] = 123 THEN
       LET hits == {k \in 1..Len(Placeholders) : OccursAt(t, NameText(Placeholders[k]) \o <<125>>, q + 1)} IN
       IF hits = {} THEN BadTemplate
       ELSE LET k == CHOOSE x \in hits : TRUE
                r == Fmt(t, q + 2 + Len(NameText(Placeholders[k])), kw) IN
            IF r = BadTemplate THEN r ELSE ValueOf(Placeholders[k], kw) \o r
  ELSE IF t[q] = 125 THEN BadTemplate
  ELSE LET r == Fmt(t, q + 1, kw) IN IF r = BadTemplate THEN r ELSE <<t[q]>> \o r
RenderMsg(t, kw) == Fmt(t, 1, kw)

\* command line shorthand: the words OLD and NEW (not part of a longer word) stand for {OLD_VERSION} / {NEW_VERSION}
IsWordChar(c) == IsDigit(c) \/ IsLowerAZ(c) \/ IsUpperAZ(c) \/ c = 95 \/ c > 127
WordAt(t, w, q) == OccursAt(t, w, q) /\ (q = 1 \/ ~IsWordChar(t[q-1])) /\ (q + Len(w) > Len(t) \/ ~IsWordChar(t[q + Len(w)]))
RECURSIVE Shorthand(_,_)
Shorthand(t, q) ==
  IF q > Len(t) THEN <<>>
  ELSE IF WordAt(t, <<79,76,68>>, q) THEN <<123>> \o NameText("OLD_VERSION") \o <<125>> \o Shorthand(t, q + 3)
  ELSE IF WordAt(t, <<78,69,87>>, q) THEN <<123>> \o NameText("NEW_VERSION") \o <<125>> \o Shorthand(t, q + 3)
  ELSE <<t[q]>> \o Shorthand(t, q + 1)
\* the message that must reach the VCS for a template given in the config (cli = FALSE) or on the command line (cli = TRUE)
Message(t, cli, kw) == RenderMsg(IF cli THEN Shorthand(t, 1) ELSE t, kw)
=============================================================================
