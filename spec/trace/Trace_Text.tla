------------------------------ MODULE Trace_Text ------------------------------
(***************************************************************************)
(* Batch validation of pure-function level events recorded from the real   *)
(* bumpver (library calls and `bumpver test`) against the level-0 modules. *)
(* Every verdict is total and names the failing clause.                    *)
(*                                                                         *)
(* event kinds (field `ev`):                                               *)
(*   build    one BUILD bump  b -> n              (C17)                    *)
(*   render   format_version(v, P) = text         (C02, C05, C14)          *)
(*   parse    parse_version_info(text, P) = v     (C02)                    *)
(*   rt       render/recognise/read-back round trip of a state (C02)       *)
(*   rt2      a bumped text is a legal current version           (C02)       *)
(*   incr     old --flags,date--> out             (C05, C01, C14)          *)
(*   gate     a run of test/update seen from outside (C01)                 *)
(*   pep      text written for {pep440_version}   (C15)                    *)
(*   search   the compiled search pattern on a line (C07)                  *)
(*   resolve  start version by tag scope, junk inertness, freshness (C09)  *)
(*   calinfo  cal_info(day) = nine fields         (C14, C02)               *)
(*   weekpat  is_valid_week_pattern(P)            (C14)                    *)
(*   mono     renderings of two consecutive days  (C14)                    *)
(***************************************************************************)
EXTENDS TraceBase, BVDerived

VARIABLE l
TraceInit == l = 1

V(pair) == <<pair[1], pair[2]>>      \* verdict = <<clause, detail>>
Good == <<OK, 0>>

BuildVerdict(e) ==
  LET n == NextBuild(e.b) IN
  IF e.n = <<0,0>> THEN (IF n = Overflow THEN Good ELSE <<"build:refused-below-maximum", n>>)
  ELSE IF n = Overflow THEN <<"build:successor-beyond-maximum", e.n>>
  ELSE IF ~BuildStepOK(e.b, e.n, e.generated) THEN <<"build:order", e.n>>          \* the property itself
  ELSE IF e.n # n THEN <<"build:successor", n>>                                     \* the spec's successor
  ELSE Good

RenderVerdict(e) == LET t == Render(e.v, e.P) IN IF t = e.text THEN Good ELSE <<"render", t>>

ParseVerdict(e) ==
  LET v == ParseVersion(e.text, e.P, e.today) IN
  IF IsBad(v) /\ ~IsBad(e.v) THEN <<"parse:spec-rejects", v.why>>
  ELSE IF ~IsBad(v) /\ IsBad(e.v) THEN <<"parse:code-rejects", 0>>
  ELSE IF SameState(v, e.v) THEN Good ELSE <<"parse:state", DiffFields(v, e.v)>>

\* round trip of one state (C02): text = render(v); accepted in full by the recogniser; every part reads
\* back equal; re-rendering what was read back reproduces the text.
\*  e.text  : what the code rendered          e.valid : did the code's recogniser accept it in full
\*  e.back  : the state the code read back (or [bad |-> TRUE])      e.again : re-rendered text
RtVerdict(e) ==
  LET t == Render(e.v, e.P) IN
  IF t # e.text THEN <<"rt:render", t>>
  ELSE IF t = <<>> THEN Good
  ELSE LET back == ParseVersion(t, e.P, e.today) IN
  IF IsBad(back) # ~e.valid THEN <<"rt:recogniser-verdict", back>>
  ELSE IF ~e.valid THEN <<"rt:not-accepted", back.why>>
  ELSE IF ~SameState(back, e.back) THEN <<"rt:readback-state", DiffFields(back, e.back)>>
  ELSE LET ps == PartsIn(e.P)
           diff == {q \in 1..Len(ps) : Fmt(ps[q], e.back) # Fmt(ps[q], e.v)} IN
  IF diff # {} THEN <<"rt:part-changed", {ps[q] : q \in diff}>>
  ELSE IF e.again # e.text THEN <<"rt:rerender", e.again>>
  ELSE Good

\* `bumpver show` / `show --environ` on a project whose configured current version is a text the code announced itself:
\*  e.text : the configured version   e.exit : exit code of show   e.shown : the "Current Version:" text
\*  e.env : the state printed by --environ (KEY=value lines; an empty value is NA)
ShowVerdict(e) ==
  LET back == ParseVersion(e.text, e.P, e.today) IN
  IF IsBad(back) THEN (IF e.exit = 0 THEN <<"show:accepts-what-the-pattern-rejects", back.why>> ELSE Good)
  ELSE IF e.exit # 0 THEN <<"show:refuses-a-legal-current-version", 0>>
  ELSE IF e.shown # e.text THEN <<"show:current-version", e.shown>>
  ELSE IF ~SameState(back, e.env) THEN <<"show:environ-state", DiffFields(back, e.env)>>
  ELSE Good

\* a text the code produced by bumping (library incr or CLI): it must be a legal current version
\*  e.text : the produced text   e.valid / e.back / e.again : as for rt
Rt2Verdict(e) ==
  LET back == ParseVersion(e.text, e.P, e.today) IN
  IF IsBad(back) # ~e.valid THEN <<"rt2:recogniser-verdict", back>>
  ELSE IF ~e.valid THEN <<"rt2:not-accepted", back.why>>
  ELSE IF ~SameState(back, e.back) THEN <<"rt2:readback-state", DiffFields(back, e.back)>>
  ELSE IF e.again # e.text THEN <<"rt2:rerender", e.again>>
  ELSE IF Render(back, e.P) # e.text THEN <<"rt2:spec-rerender", Render(back, e.P)>>
  ELSE Good

\* e.mode : "lib" (what the library's incr returned, no gate behind it) or "cli" (what `bumpver test` announced: the gate refuses a result that is
\* not greater than the old version or that its own pattern does not accept).  A refusal is explained if the specification refuses too, or - "cli" only -
\* if the gate has a reason; an unexplained refusal breaks the rule that would have applied (e.g. NUM + 1 with --tag-num).
IncrVerdict(e) ==
  LET t == Incr(e.old, e.P, e.f, e.date, e.today, Dev)
      mode == IF "mode" \in DOMAIN e THEN e.mode ELSE "cli" IN
  IF e.out = None \/ e.out = Raises
  THEN (IF t = e.out THEN Good
        ELSE IF t = None \/ t = Raises THEN <<"incr:refusal", t>>
        ELSE IF mode = "lib" \/ (VerCmp(e.old, t) = -1 /\ IsValid(t, e.P, e.today)) THEN <<"incr:unexplained-refusal", t>>
        ELSE <<"incr:refusal", t>>)
  ELSE LET old == ParseVersion(e.old, e.P, e.today)
           new == ParseVersion(e.out, e.P, e.today)
           cal == CalInfo(e.date) F == FieldOrder(e.P) IN
  IF IsBad(old) THEN <<"incr:old-unreadable", old.why>>
  ELSE IF IsBad(new) THEN <<"incr:new-unreadable", new.why>>
  ELSE LET c == BumpClause(F, old, new, e.f, cal, CalGt(old, cal)) IN
  IF c # OK THEN <<"incr:rule:" \o c, <<old[c], new[c]>> >>
  ELSE IF ~CalNotBackwards(F, old, new) THEN <<"incr:calendar-backwards", 0>>
  ELSE IF e.out # RenderDoc(new, e.P) \/ e.out # Render(new, e.P) THEN <<"incr:group-omission", Render(new, e.P)>>
  ELSE IF t # e.out THEN <<"incr:divergence", t>>
  ELSE Good

\* one run of `bumpver test` / `bumpver update [--dry]` seen from outside (C01)
\*  e.cfgver : config value (for `test`: the OLD argument)   e.tags : tags the VCS lists for the scope (texts)   e.scope
\*  e.ignore : --ignore-vcs-tag     e.old : the start version the run logged (<<0>> if none)
\*  e.new : announced version (<<0>> if none)   e.exit : exit code   e.changed : did any project file change
GateVerdict(e) ==
  LET start == IF e.ignore THEN e.cfgver ELSE ResolveCurrent(e.cfgver, e.tags, e.scope, e.P, e.today) IN
  IF e.exit # 0 THEN (IF e.changed THEN <<"gate:failed-run-changed-files", 0>> ELSE Good)
  ELSE IF e.new = None THEN <<"gate:exit0-without-version", 0>>
  ELSE IF e.old # None /\ VerCmp(start, e.old) # 0 THEN <<"gate:start-version", start>>
  ELSE IF ~IsValid(e.new, e.P, e.today) THEN <<"gate:announced-does-not-match-pattern", ParseVersion(e.new, e.P, e.today).why>>
  ELSE IF VerCmp(start, e.new) # -1 THEN <<"gate:announced-not-greater", <<start, VerCmp(start, e.new)>> >>
  ELSE Good

\* what the code writes for {pep440_version} next to {version} (C15)
\*  e.P : version pattern   e.DP : the code's derived pattern (as data)   e.v : the read-back state   e.t : version text
\*  e.u : text written for {pep440_version}   e.printed : the PEP440 value printed by test/show   e.accD : the code's compiled DP accepts u in full
PepVerdict(e) ==
  LET c == C15Clause(e.v, e.P, e.DP, e.t, e.u, e.printed, e.accD)
      ps == PartsIn(e.P)
      gaps == [s10 |-> \E q \in 2..Len(ps) : ps[q] \in {"0Y", "0G"}, glued |-> GluedParts(e.P)] IN
  IF c = "ok:version-not-pep440" THEN <<"skip:version-not-pep440", 0>>
  ELSE IF c # OK THEN <<"pep:" \o c, gaps>>
  ELSE IF Pep440Pattern(e.P) # e.DP THEN <<"pep:derivation-differs", Pep440Pattern(e.P)>>
  ELSE Good

\* the code's compiled search pattern applied to a line (C07): e.hit = <<start, end>> (0-based, end exclusive) or <<-1, -1>>
SearchVerdict(e) ==
  LET m == Search(Compile(e.P), e.line)
      want == IF m.ok THEN <<m.start - 1, m.end - 1>> ELSE <<-1, -1>> IN
  IF want = e.hit THEN Good
  ELSE IF ~m.ok THEN <<"search:matches-where-the-text-is-absent", e.hit>>
  ELSE IF e.hit = <<-1, -1>> THEN <<"search:misses-the-text", want>>
  ELSE <<"search:span", want>>

\* where a run starts from, with and without the non-matching tags, and what it announces (C09)
\*  e.cfgver : config value   e.all : tags of all branches   e.branch : tags reachable from HEAD (both in the VCS's order)   e.scope   e.ignore
\*  e.show : version `show` prints (<<0>> if it failed)   e.show_clean : the same with every non-matching tag removed
\*  e.old : start version logged by `update`  e.new : announced version (<<0>> none)  e.exit : exit code of the update   e.exit_clean
\*  e.uscope : the scope in force for the update (--tag-scope on the command line overrides the configured one; `show` has no such option)
InList(x, ts) == \E q \in 1..Len(ts) : ts[q] = x
ResolveVerdict(e) ==
  LET lst == IF e.scope = "branch" THEN e.branch ELSE e.all
      start == IF e.ignore THEN e.cfgver ELSE ResolveCurrent(e.cfgver, lst, e.scope, e.P, e.today)
      valid == ValidTags(lst, e.P, e.today)
      ulst == IF e.uscope = "branch" THEN e.branch ELSE e.all
      ustart == IF e.ignore THEN e.cfgver ELSE ResolveCurrent(e.cfgver, ulst, e.uscope, e.P, e.today) IN
  IF e.show = None THEN (IF "fetch_fails" \in DOMAIN e /\ e.fetch_fails THEN Good ELSE <<"resolve:show-fails", 0>>)        \* a failing fetch may stop the run, it must not yield another start
  ELSE IF VerCmp(e.show, start) # 0 THEN <<"resolve:start-is-not-the-greatest-in-scope", start>>
  ELSE IF ~(e.show = e.cfgver \/ InList(e.show, valid)) THEN <<"resolve:start-is-not-one-of-the-candidates", start>>
  ELSE IF e.show_clean # e.show THEN <<"resolve:non-matching-tags-change-the-start", e.show_clean>>
  ELSE IF (e.exit = 0) # (e.exit_clean = 0) THEN <<"resolve:non-matching-tags-change-the-outcome", e.exit_clean>>
  ELSE IF e.exit = 0 /\ e.old # None /\ VerCmp(e.old, ustart) # 0 THEN <<"resolve:update-starts-elsewhere", ustart>>
  ELSE IF e.exit = 0 /\ InList(e.new, e.all) THEN <<"resolve:new-version-equals-existing-tag", e.new>>
  ELSE Good

\* `bumpver grep PATTERN file`: which lines it reports as matching (C07 end to end)   e.lines : the file's lines   e.reported : 1-based numbers of the matched lines
GrepVerdict(e) ==
  LET want == {i \in 1..Len(e.lines) : LET m == Search(Compile(e.P), e.lines[i]) IN m.ok /\ m.end > m.start}
      got == {e.reported[q] : q \in 1..Len(e.reported)} IN
  IF got = want THEN Good
  ELSE IF got \ want # {} THEN <<"grep:reports-a-line-without-the-text", got \ want>>
  ELSE <<"grep:misses-a-line-with-the-text", want \ got>>

CalVerdict(e) ==
  LET c == CalInfo(e.n) bad == {f \in CalFieldSet : c[f] # e.c[f]} IN
  IF bad = {} THEN Good ELSE <<"calinfo", [f \in bad |-> <<c[f], e.c[f]>>]>>

\* two consecutive days rendered by the code through one calendar combination (C14)
\*  e.t1, e.t2 : the code's renderings for day e.n and e.n + 1     e.lower : does the code's comparison say t2 < t1
MonoVerdict(e) ==
  LET c1 == CalInfo(e.n) @@ e.rest  c2 == CalInfo(e.n + 1) @@ e.rest IN
  IF RenderDoc(c1, e.P) # e.t1 THEN <<"mono:render", RenderDoc(c1, e.P)>>
  ELSE IF RenderDoc(c2, e.P) # e.t2 THEN <<"mono:render", RenderDoc(c2, e.P)>>
  ELSE LET c == VerCmp(e.t1, e.t2) IN
  IF (c = 1) # e.lower THEN <<"mono:comparison", c>>
  ELSE IF e.coherent /\ c = 1 THEN <<"mono:backwards", c>>
  ELSE Good

WeekPatVerdict(e) == IF CoherentWeekPattern(e.P) = e.ok THEN Good ELSE <<"weekpat", CoherentWeekPattern(e.P)>>

Verdict(e) ==
  CASE e.ev = "build"   -> BuildVerdict(e)
    [] e.ev = "render"  -> RenderVerdict(e)
    [] e.ev = "parse"   -> ParseVerdict(e)
    [] e.ev = "rt"      -> RtVerdict(e)
    [] e.ev = "rt2"     -> Rt2Verdict(e)
    [] e.ev = "show"    -> ShowVerdict(e)
    [] e.ev = "incr"    -> IncrVerdict(e)
    [] e.ev = "gate"    -> GateVerdict(e)
    [] e.ev = "pep"     -> PepVerdict(e)
    [] e.ev = "search"  -> SearchVerdict(e)
    [] e.ev = "grep"    -> GrepVerdict(e)
    [] e.ev = "resolve" -> ResolveVerdict(e)
    [] e.ev = "calinfo" -> CalVerdict(e)
    [] e.ev = "weekpat" -> WeekPatVerdict(e)
    [] e.ev = "mono"    -> MonoVerdict(e)
    [] OTHER -> <<"unknown-event", e.ev>>

TraceNext == /\ l <= Len(Trace) /\ l' = l + 1
             /\ LET v == Verdict(Trace[l]) IN v[1] = OK \/ Report(Trace[l], v[1], v[2])
TraceAccepted == TLCGet("stats").diameter - 1 = Len(Trace)
=============================================================================
