----------------------------- MODULE Trace_Update -----------------------------
(***************************************************************************)
(* Validation of whole `bumpver update` runs seen from outside: the case   *)
(* (a terminal state exported by a design instance, or a generated one),   *)
(* and what the real run did - exit code, files changed, ordered log of    *)
(* VCS commands and hook runs recorded by the fake VCS.                    *)
(*   fault   a run of MC_C06's product (one fault or none)      (C06)      *)
(*   steps   a run of MC_C10's product (configuration lattice)  (C10)      *)
(***************************************************************************)
EXTENDS TraceBase, FiniteSets, BVPipeline, BVVcs, BVStatus
VARIABLE l
TraceInit == l = 1
Good == <<OK, 0>>
Mutating == {"add_path", "commit", "tag", "tag_light", "push", "push_tag"}
Names(log) == [q \in 1..Len(log) |-> log[q].name]
HasMutating(log) == \E q \in 1..Len(log) : log[q].kind = "cmd" /\ log[q].name \in Mutating
HasHook(log) == \E q \in 1..Len(log) : log[q].kind = "hook"

\*  e.case : the exported terminal state of MC_C06 (n, pats, fault, commit, dry, engine, exit_zero, written, log)
\*  e.exit : exit code   e.changed : indices of configured files whose bytes changed   e.other_changed : any other file changed
\*  e.log : ordered fake-VCS log
FaultVerdict(e) ==
  LET c == e.case IN
  IF (e.exit = 0) # c.exit_zero THEN <<"fault:exit-class", c.exit_zero>>
  ELSE IF e.exit # 0 /\ (e.changed # <<>> \/ e.other_changed) THEN <<"fault:failed-run-changed-files", e.changed>>
  ELSE IF e.exit # 0 /\ HasMutating(e.log) THEN <<"fault:failed-run-mutating-vcs-command", Names(e.log)>>
  ELSE IF c.dry /\ (e.changed # <<>> \/ e.other_changed \/ HasMutating(e.log)) THEN <<"fault:dry-run-not-inert", e.changed>>
  ELSE IF e.exit = 0 /\ ~c.dry /\ {e.changed[q] : q \in 1..Len(e.changed)} # {c.written[q] : q \in 1..Len(c.written)} THEN <<"fault:written-set", c.written>>
  ELSE Good

\* projection of the recorded log onto the vocabulary of the property: queries are dropped, the add of each file is one "add" step
StepName(x) == IF x.kind = "hook" THEN (IF x.name = "pre" THEN "prehook" ELSE "posthook")
               ELSE CASE x.name = "add_path" -> "add" [] x.name \in {"ls_tags", "ls_tags_branch"} -> "lstags"
                      [] x.name \in {"fetch", "status", "commit", "tag", "tag_light", "push", "push_tag"} -> x.name [] OTHER -> "query"
RECURSIVE Collapse(_)
Collapse(s) == IF Len(s) < 2 THEN s ELSE IF s[1] \in {"add", "lstags"} /\ s[2] = s[1] THEN Collapse(Tail(s)) ELSE <<s[1]>> \o Collapse(Tail(s))
Project(log) == Collapse(SelectSeq([q \in 1..Len(log) |-> StepName(log[q])], LAMBDA x : x # "query"))

\*  e.case : a configuration of the lattice (BVPipeline)   e.exit, e.changed, e.log : what the real run did
\*  e.old, e.new : the versions the run went from / to (for the hook environment)
\* e.objs (optional): name and argv of the tag / push commands; the tag step and the tag-pushing step name the new tag, a git push names the remote
ObjOK(o, e) == /\ (o.name \in {"tag", "tag_light", "push_tag"} => \E q \in 1..Len(o.argv) : o.argv[q] = e.new)
               \* the commit step commits what the staging steps staged: `git commit --message <text>` and nothing that widens it (--all, a pathspec)
               /\ (e.case.vcs = "git" /\ o.name = "commit" => Len(o.argv) = 4 /\ SubSeq(o.argv, 1, 3) = <<"git", "commit", "--message">>)
               /\ (e.case.vcs = "git" /\ o.name \in {"push", "push_tag"} => \E q \in 1..Len(o.argv) : o.argv[q] = e.remote_name)
StepsVerdict(e) ==
  LET x == Expected(e.case) got == Project(e.log) IN
  IF x.exit0 # (e.exit = 0) THEN <<"steps:exit-class", x.exit0>>
  ELSE IF got # x.log THEN <<"steps:order-or-gating", x.log>>
  ELSE IF e.changed # x.changed THEN <<"steps:files-changed", x.changed>>
  ELSE IF \E q \in 1..Len(e.log) : e.log[q].kind = "hook" /\ (e.log[q].old # e.old \/ e.log[q].new # e.new) THEN <<"steps:hook-environment", <<e.old, e.new>> >>
  ELSE IF "objs" \in DOMAIN e /\ \E q \in 1..Len(e.objs) : ~ObjOK(e.objs[q], e) THEN <<"steps:step-does-not-name-its-object", e.new>>
  ELSE Good

\* one VCS invocation of a run (C12):  e.tool, e.name : which command   e.argv : what the VCS received (texts)
\*  e.values : the values that must arrive verbatim (tag, path, remote, logfile as applicable)
\*  e.template, e.cli, e.kw : the message template in force, its source, the version texts (for commands that carry a message)
\*  e.filemsg : for `hg commit --logfile` the content of the message file
ArgvVerdict(e) ==
  LET hasMsg == e.name \in {"commit", "tag"}
      msg == IF hasMsg THEN Message(e.template, e.cli, e.kw) ELSE <<>> IN
  IF hasMsg /\ msg = BadTemplate THEN <<"skip:template-outside-documented-placeholders", 0>>
  ELSE LET vals == [message |-> msg] @@ e.values
           want == Argv(e.tool, e.name, vals) IN
  IF Len(e.argv) # Len(want) THEN <<"argv:argument-count", Len(want)>>
  ELSE IF e.argv # want THEN <<"argv:value-altered", {q \in 1..Len(want) : e.argv[q] # want[q]}>>
  ELSE IF e.tool = "hg" /\ e.name = "commit" /\ e.filemsg # msg THEN <<"argv:hg-message-file", msg>>
  ELSE Good
\* the message of a run:  e.template, e.cli : where it came from   e.kw : old / new / oldpep / newpep texts   e.message : what reached the VCS
MsgVerdict(e) ==
  LET m == Message(e.template, e.cli, e.kw) IN
  IF m = BadTemplate THEN <<"skip:template-outside-documented-placeholders", 0>>
  ELSE IF m # e.message THEN <<"msg:not-the-rendered-template", m>> ELSE Good

\* a committing update on a real repository whose working tree is in some state (C11)
\*  e.lines : the porcelain lines real git printed before the run   e.paths : paths carrying a version pattern   e.allow : --allow-dirty
\*  e.exit   e.changed : did any file change   e.sweep : does the bump commit hold anything but the version change of a pattern file
DirtyVerdict(e) ==
  LET ps == {e.paths[q] : q \in 1..Len(e.paths)}
      b == Blocks(e.lines, e.tool, ps, e.allow) IN
  IF b /\ e.exit = 0 THEN <<"dirty:update-not-blocked", 0>>
  ELSE IF b /\ e.changed THEN <<"dirty:aborted-after-modifying-files", 0>>
  ELSE IF ~b /\ e.lines # <<>> /\ OnlyUntrackedOthers(e.lines, e.tool, ps) /\ e.exit # 0 THEN <<"dirty:untracked-unrelated-file-blocks", 0>>
  ELSE IF e.exit = 0 /\ e.sweep THEN <<"dirty:uncommitted-change-swept-into-bump-commit", 0>>
  ELSE IF ~b /\ e.exit # 0 THEN <<"dirty:divergence-refused-although-clean-enough", 0>>
  ELSE Good

\* an `update` somebody else scripted (the repository's own tests, recorded through the hooks): the configuration is not known,
\* so the log is checked against the configuration-independent part of C10: order, no tag/push without commit, --dry inert, --no-fetch
OrderNames == <<"status", "prehook", "add", "commit", "posthook", "tag", "tag_light", "push", "push_tag">>
Pos(n) == CHOOSE q \in 1..Len(OrderNames) : OrderNames[q] = n
Rank(n) == IF n \in {"tag", "tag_light"} THEN 6 ELSE IF n \in {"push", "push_tag"} THEN 7 ELSE Pos(n)
OrderVerdict(e) ==
  LET p == SelectSeq(Project(e.log), LAMBDA x : x \in {OrderNames[q] : q \in 1..Len(OrderNames)})
      has(n) == \E q \in 1..Len(p) : p[q] = n IN
  IF \E a, b \in 1..Len(p) : a < b /\ Rank(p[a]) > Rank(p[b]) THEN <<"order:steps-out-of-order", p>>
  ELSE IF (has("tag") \/ has("tag_light") \/ has("push") \/ has("push_tag") \/ has("posthook")) /\ ~has("commit") THEN <<"order:tag-or-push-without-commit", p>>
  ELSE IF e.dry /\ (p # <<>> \/ HasHook(e.log)) THEN <<"order:dry-run-not-inert", p>>
  ELSE IF ~e.fetch /\ \E q \in 1..Len(e.log) : e.log[q].name = "fetch" THEN <<"order:fetch-despite-no-fetch", 0>>
  ELSE Good
\* the shape of one recorded VCS invocation: fixed words in place, exactly one argument per hole (values taken from the argv itself)
ShapeVerdict(e) ==
  IF e.values = <<>> THEN <<"shape:too-few-arguments", Len(e.argv)>>
  ELSE LET want == Argv(e.tool, e.name, e.values) IN
  IF Len(e.argv) # Len(want) THEN <<"shape:argument-count", Len(want)>> ELSE IF e.argv # want THEN <<"shape:fixed-words", want>> ELSE Good

Verdict(e) == CASE e.ev = "order" -> OrderVerdict(e) [] e.ev = "shape" -> ShapeVerdict(e) [] e.ev = "dirty" -> DirtyVerdict(e) [] e.ev = "argv" -> ArgvVerdict(e) [] e.ev = "msg" -> MsgVerdict(e) [] e.ev = "fault" -> FaultVerdict(e) [] e.ev = "steps" -> StepsVerdict(e) [] OTHER -> <<"unknown-event", e.ev>>
TraceNext == /\ l <= Len(Trace) /\ l' = l + 1
             /\ LET v == Verdict(Trace[l]) IN v[1] = OK \/ Report(Trace[l], v[1], v[2])
TraceAccepted == TLCGet("stats").diameter - 1 = Len(Trace)
=============================================================================
