----------------------------- MODULE Trace_Update -----------------------------
(***************************************************************************)
(* Validation of whole `bumpver update` runs seen from outside: the case   *)
(* (a terminal state exported by a design instance, or a generated one),   *)
(* and what the real run did - exit code, files changed, ordered log of    *)
(* VCS commands and hook runs recorded by the fake VCS.                    *)
(*   fault   a run of MC_C06's product (one fault or none)      (C06)      *)
(*   steps   a run of MC_C10's product (configuration lattice)  (C10)      *)
(***************************************************************************)
EXTENDS TraceBase, FiniteSets
VARIABLE l
TraceInit == l = 1
Good == <<OK, 0>>
Mutating == {"add_path", "commit", "tag", "tag_light", "push", "push_tag"}
Names(log) == [q \in 1..Len(log) |-> log[q].name]
HasMutating(log) == \E q \in 1..Len(log) : log[q].kind = "cmd" /\ log[q].name \in Mutating
HasHook(log) == \E q \in 1..Len(log) : log[q].kind = "hook"

\*  e.case : the exported terminal state of MC_C06 (n, pats, fault, commit, dry, engine, exit_zero, written, log)
\*  e.exit : exit code   e.changed : indices of configured files whose bytes changed   e.other_changed : any other file changed
\*  e.log : ordered fake-VCS log
FaultVerdict(e) ==
  LET c == e.case IN
  IF (e.exit = 0) # c.exit_zero THEN <<"fault:exit-class", c.exit_zero>>
  ELSE IF e.exit # 0 /\ (e.changed # <<>> \/ e.other_changed) THEN <<"fault:failed-run-changed-files", e.changed>>
  ELSE IF e.exit # 0 /\ HasMutating(e.log) THEN <<"fault:failed-run-mutating-vcs-command", Names(e.log)>>
  ELSE IF c.dry /\ (e.changed # <<>> \/ e.other_changed \/ HasMutating(e.log)) THEN <<"fault:dry-run-not-inert", e.changed>>
  ELSE IF e.exit = 0 /\ ~c.dry /\ {e.changed[q] : q \in 1..Len(e.changed)} # {c.written[q] : q \in 1..Len(c.written)} THEN <<"fault:written-set", c.written>>
  ELSE Good

Verdict(e) == CASE e.ev = "fault" -> FaultVerdict(e) [] OTHER -> <<"unknown-event", e.ev>>
TraceNext == /\ l <= Len(Trace) /\ l' = l + 1
             /\ LET v == Verdict(Trace[l]) IN v[1] = OK \/ Report(Trace[l], v[1], v[2])
TraceAccepted == TLCGet("stats").diameter - 1 = Len(Trace)
=============================================================================
