------------------------------ MODULE TraceBase ------------------------------
(***************************************************************************)
(* Common part of the batch trace specifications: a recorded execution is  *)
(* an ndjson file of independent events; the trace spec consumes one event *)
(* per step, evaluates the event's verdict with the specification's own    *)
(* operators and prints every event whose verdict is not "ok" as one JSON  *)
(* line.  The run is accepted iff every line was consumed.                 *)
(***************************************************************************)
EXTENDS Integers, Sequences, TLC, Json, IOUtils
Trace == ndJsonDeserialize(IOEnv.TRACE_FILE)
OK == "ok"
Report(e, clause, detail) == PrintT(ToJson([id |-> e.id, clause |-> clause, detail |-> ToString(detail)]))
=============================================================================
