----------------------------- MODULE Trace_Rewrite -----------------------------
(***************************************************************************)
(* Batch validation of file rewrites recorded from real `bumpver update`   *)
(* runs (C03, C04, C06, C13) against BVRewrite.                            *)
(*   rewrite  one configured file before / after an update                 *)
(*   diff     the unified diff printed by --dry, applied to the old file,  *)
(*            against what the real run wrote                              *)
(***************************************************************************)
EXTENDS TraceBase, BVRewrite
VARIABLE l
TraceInit == l = 1
Good == <<OK, 0>>

\*  e.old / e.new : file text before / after    e.ok : the update exited 0    e.pats : the file's patterns (normalised, configuration order)
\*  e.v : the new version's state    e.occ : the occurrences the layout generator placed (line, start, end, pat), all 1-based lines / 0-based spans
RewriteVerdict(e) ==
  LET r == Rewrite(e.old, e.pats, e.v, Dev) IN
  IF r.ok /\ {r.kept[q] : q \in 1..Len(r.kept)} # {e.occ[q] : q \in 1..Len(e.occ)} THEN <<"skip:layout-not-well-formed", r.kept>>
  ELSE IF ~r.ok /\ e.occ # <<>> /\ e.expect_ok THEN <<"skip:layout-not-well-formed", r.missing>>
  ELSE IF ~e.ok THEN (IF r.ok THEN <<"rewrite:refused-although-every-pattern-matches", 0>>
                       ELSE IF e.new # e.old THEN <<"rewrite:failed-run-changed-file", 0>> ELSE Good)
  ELSE LET c == RewriteClause(e.old, e.new, e.pats, e.v)
           sep == LineSep(e.old) nl == SplitBy(e.new, sep) IN
       IF c = OK THEN Good
       \* a rewrite that changed text outside the spans is C04's business; asked under C03 (e.prop), the same file is also looked at with C03's eyes:
       \* does every line with kept occurrences show, for each of their patterns, the new version where that pattern is found
       ELSE IF "prop" \in DOMAIN e /\ e.prop = "C03" /\ r.ok /\ c \in {"c04:text-outside-span-changed", "c04:unmatched-line-changed"} /\ Len(nl) = Len(SplitBy(e.old, sep))
               /\ \E i \in 1..Len(nl) : ~ShowsNew(nl[i], KeptOfLine(r.kept, i), e.pats, r.texts)
            THEN <<"rewrite:c03:occurrence-does-not-show-the-new-version", r.text>>
       ELSE <<"rewrite:" \o c, IF r.ok THEN r.text ELSE r.missing>>

\*  e.old : file text    e.hunks : the printed hunks of this file    e.real : file text after the real run
DiffVerdict(e) ==
  LET sep == LineSep(e.old)
      a == ApplyHunks(SplitBy(e.old, sep), e.hunks) IN
  IF ~a.ok THEN <<"diff:does-not-apply", 0>>
  ELSE IF Join(a.lines, sep) # e.real THEN <<"diff:result-differs-from-real-run", Join(a.lines, sep)>>
  ELSE Good

\* a file whose occurrences the generator placed itself (legacy patterns, for which the trace spec has no renderer here):
\*  e.old, e.new : file text before / after   e.occ : placed occurrences [line, start, end, pat]   e.texts : the text each pattern must show afterwards
\*  (the announced version for {version}, the PEP440 value printed by `test` for {pep440_version})
SubstVerdict(e) ==
  LET sep == LineSep(e.old) ol == SplitBy(e.old, sep) nl == SplitBy(e.new, sep)
      kept == e.occ
      want == Join([i \in 1..Len(ol) |-> ReplaceLine(ol[i], KeptOfLine(kept, i), e.texts)], sep) IN
  IF ~e.ok THEN (IF e.new # e.old THEN <<"rewrite:failed-run-changed-file", 0>> ELSE Good)
  ELSE IF e.new = want THEN Good
  ELSE IF Len(ol) # Len(nl) \/ Join(nl, sep) # e.new THEN <<"rewrite:c04:line-structure", want>>
  ELSE IF \E i \in 1..Len(ol) : KeptOfLine(kept, i) = <<>> /\ nl[i] # ol[i] THEN <<"rewrite:c04:unmatched-line-changed", want>>
  ELSE IF \E i \in 1..Len(ol) : ~OnlySpansChanged(ol[i], nl[i], KeptOfLine(kept, i)) THEN <<"rewrite:c04:text-outside-span-changed", want>>
  ELSE <<"rewrite:c03:occurrence-not-updated", want>>

Verdict(e) == CASE e.ev = "subst" -> SubstVerdict(e) [] e.ev = "rewrite" -> RewriteVerdict(e) [] e.ev = "diff" -> DiffVerdict(e) [] OTHER -> <<"unknown-event", e.ev>>
TraceNext == /\ l <= Len(Trace) /\ l' = l + 1
             /\ LET v == Verdict(Trace[l]) IN v[1] = OK \/ Report(Trace[l], v[1], v[2])
TraceAccepted == TLCGet("stats").diameter - 1 = Len(Trace)
=============================================================================
