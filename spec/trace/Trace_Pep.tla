------------------------------ MODULE Trace_Pep ------------------------------
(***************************************************************************)
(* Batch validation of the implementation's version comparison (C16).      *)
(* TEXTS_FILE holds the distinct texts; each is parsed ONCE by the spec    *)
(* into a constant-level table (TLC evaluates constant definitions once).  *)
(* Events refer to texts by index:                                         *)
(*   text    the code's classification (PEP 440 or legacy) and str()       *)
(*   cmp     the code's answers to a < b, a <= b, a == b, a > b            *)
(*   triple  the code's <= on (a,b), (b,c), (a,c): transitivity            *)
(***************************************************************************)
EXTENDS TraceBase, BVPep440
Texts  == ndJsonDeserialize(IOEnv.TEXTS_FILE)
\* TLC's function values are lazy and definitions that use RECURSIVE operators are not cached as constants, so the
\* table of parsed texts is built ONCE by an ASSUME and kept in TLC registers (TLCSet/TLCGet; the run uses one worker).
RECURSIVE BuildParsed(_), BuildKeys(_,_)
BuildParsed(q) == IF q > Len(Texts) THEN <<>> ELSE <<ParseVer(Texts[q].t)>> \o BuildParsed(q + 1)
BuildKeys(P, q) == IF q > Len(Texts) THEN <<>> ELSE <<IF P[q].pep THEN <<>> ELSE LegacyKey(Texts[q].t)>> \o BuildKeys(P, q + 1)
ASSUME TablesBuilt == LET P == BuildParsed(1) IN TLCSet(2, P) /\ TLCSet(3, BuildKeys(P, 1))
Parsed == TLCGet(2)
Keys   == TLCGet(3)
Cmp(a, b) == IF Parsed[a].pep /\ Parsed[b].pep THEN PepCmp(Parsed[a], Parsed[b])
             ELSE IF Parsed[a].pep THEN 1 ELSE IF Parsed[b].pep THEN -1 ELSE KeyCmp(Keys[a], Keys[b])

VARIABLE l
TraceInit == l = 1
Good == <<OK, 0>>

TextVerdict(e) ==
  IF Parsed[e.a].pep # e.pep THEN <<"text:class", Parsed[e.a].pep>>
  ELSE LET c == IF Parsed[e.a].pep THEN PrintRec(Parsed[e.a]) ELSE Texts[e.a].t IN
       IF c # e.canon THEN <<"text:canonical-form", c>> ELSE Good

CmpVerdict(e) ==
  LET c == Cmp(e.a, e.b) IN
  \* laws on the code's own answers first (they do not depend on the spec's ordering)
  IF (IF e.lt THEN 1 ELSE 0) + (IF e.eq THEN 1 ELSE 0) + (IF e.gt THEN 1 ELSE 0) # 1 THEN <<"cmp:not-total", <<e.lt, e.eq, e.gt>> >>
  ELSE IF e.le # (e.lt \/ e.eq) THEN <<"cmp:le-inconsistent", <<e.lt, e.eq, e.le>> >>
  ELSE IF e.a = e.b /\ ~e.eq THEN <<"cmp:not-reflexive", 0>>
  ELSE IF Parsed[e.a].pep /\ ~Parsed[e.b].pep /\ ~e.gt THEN <<"cmp:legacy-not-below", c>>
  ELSE IF ~Parsed[e.a].pep /\ Parsed[e.b].pep /\ ~e.lt THEN <<"cmp:legacy-not-below", c>>
  ELSE IF e.lt # (c = -1) \/ e.eq # (c = 0) THEN
          (IF Parsed[e.a].pep /\ Parsed[e.b].pep THEN <<"cmp:pep440-order", c>> ELSE <<"cmp:legacy-order", c>>)
  ELSE Good

TripleVerdict(e) ==
  IF e.ab /\ e.bc /\ ~e.ac THEN <<"triple:not-transitive", <<e.a, e.b, e.c>> >>
  ELSE IF e.ab # (Cmp(e.a, e.b) <= 0) \/ e.bc # (Cmp(e.b, e.c) <= 0) \/ e.ac # (Cmp(e.a, e.c) <= 0) THEN <<"triple:order", <<Cmp(e.a, e.b), Cmp(e.b, e.c), Cmp(e.a, e.c)>> >>
  ELSE Good

Verdict(e) == CASE e.ev = "text" -> TextVerdict(e) [] e.ev = "cmp" -> CmpVerdict(e) [] e.ev = "triple" -> TripleVerdict(e)
                [] OTHER -> <<"unknown-event", e.ev>>
TraceNext == /\ l <= Len(Trace) /\ l' = l + 1
             /\ LET v == Verdict(Trace[l]) IN v[1] = OK \/ Report(Trace[l], v[1], v[2])
TraceAccepted == TLCGet("stats").diameter - 1 = Len(Trace)
=============================================================================
