---------------------------- MODULE Trace_Pipeline ----------------------------
(***************************************************************************)
(* Stateful trace validation (C10): the hook events of real `update` runs  *)
(* are consumed by the ACTIONS of Pipeline.tla.  A trace file holds many   *)
(* runs; each is [conf, exit0, changed, events] where events is the        *)
(* ordered list of step names the hooks recorded:                          *)
(*   fetch lstags status write prehook add commit posthook tag tag_light   *)
(*   push push_tag                                                         *)
(* A logged action consumes one event and must append exactly that name to *)
(* the machine's log; actions that append nothing are silent steps;        *)
(* further `write` / `add` events of the same phase (one per file) are     *)
(* stuttering.  A run is accepted when the machine is done, every event is *)
(* consumed and exit class and file change agree; then the next run starts.*)
(* The furthest position reached is kept in a TLC register; the            *)
(* postcondition reports the run and line at which validation got stuck.   *)
(***************************************************************************)
EXTENDS Pipeline, Json, IOUtils
Runs == ndJsonDeserialize(IOEnv.TRACE_FILE)
VARIABLES t, l
tvars == <<t, l, conf, lvl, pc, log, exit, filesChanged>>
Ev(q) == Runs[t].events[q]
TraceInit == t = 1 /\ l = 1 /\ conf = Runs[1].conf /\ lvl = 5 /\ pc = "merge" /\ log = <<>> /\ exit = 0 /\ filesChanged = FALSE
Logged == /\ t <= Len(Runs) /\ l <= Len(Runs[t].events)
          /\ Step /\ Len(log') = Len(log) + 1 /\ log'[Len(log')] = Ev(l)
          /\ l' = l + 1 /\ UNCHANGED t
Silent == /\ t <= Len(Runs) /\ Step /\ log' = log /\ UNCHANGED <<t, l>>
\* one event per file for the same step: the 2nd .. nth `write` and `add`
Repeat == /\ t <= Len(Runs) /\ l <= Len(Runs[t].events) /\ l > 1 /\ Ev(l) \in {"write", "add"} /\ Ev(l - 1) = Ev(l)
          /\ l' = l + 1 /\ UNCHANGED <<t, conf, lvl, pc, log, exit, filesChanged>>
\* the file rewrite is observed through the hooks (rewrite.write) although it is no VCS command: consume it with the Write action
WriteEv == /\ t <= Len(Runs) /\ l <= Len(Runs[t].events) /\ Ev(l) = "write" /\ pc = "write"
           /\ Write /\ l' = l + 1 /\ UNCHANGED t
Finish == /\ t <= Len(Runs) /\ pc = "done" /\ l = Len(Runs[t].events) + 1
          /\ (exit = 0) = Runs[t].exit0 /\ filesChanged = Runs[t].changed
          /\ t' = t + 1 /\ l' = 1
          /\ IF t + 1 <= Len(Runs)
             THEN conf' = Runs[t + 1].conf /\ pc' = "merge" /\ log' = <<>> /\ exit' = 0 /\ filesChanged' = FALSE /\ UNCHANGED lvl
             ELSE UNCHANGED <<conf, lvl, pc, log, exit, filesChanged>>
TraceNext == Logged \/ (Silent /\ pc # "write") \/ Repeat \/ WriteEv \/ Finish
\* furthest position reached (run * 100000 + line)
ASSUME TLCSet(1, 0)
Furthest == TLCSet(1, IF t * 100000 + l > TLCGet(1) THEN t * 100000 + l ELSE TLCGet(1))
TraceAccepted == IF TLCGet(1) >= (Len(Runs) + 1) * 100000 THEN TRUE
                 ELSE PrintT(ToJson([stuck_run |-> TLCGet(1) \div 100000, stuck_line |-> TLCGet(1) % 100000])) /\ FALSE
=============================================================================
