----------------------------- MODULE Trace_Config -----------------------------
(***************************************************************************)
(* Validation of configuration-level runs against BVConfig.                *)
(*   init    init --dry ; init ; show ; init  on one project layout (C19)  *)
(*   load    one abstract configuration loaded from a concrete file (C18)  *)
(***************************************************************************)
EXTENDS TraceBase, BVConfig, BVPattern
VARIABLE l
TraceInit == l = 1
Good == <<OK, 0>>
SetOf(s) == {s[q] : q \in 1..Len(s)}

\*  e.lay : content class of each config-capable file      e.exits : exit codes of the four commands
\*  e.changed1..4 : files whose bytes changed by each command (e.changed3 for show)   e.prefix_ok : prior bytes are a prefix of the new bytes
\*  e.named : the file init says it wrote / would write    e.shown : version printed by show    e.initial : this year's initial version
InitVerdict(e) ==
  LET x == InitExpectation(e.lay) IN
  IF (e.exits[1] = 0) # x.dry_exit0 THEN <<"init:dry-run-exit-code", x.dry_exit0>>
  ELSE IF e.changed1 # <<>> THEN <<"init:dry-run-writes", e.changed1>>
  ELSE IF (e.exits[2] = 0) # x.init_exit0 THEN <<"init:exit-code", x.init_exit0>>
  ELSE IF SetOf(e.changed2) # x.written THEN <<"init:wrong-file-written", x.written>>
  ELSE IF ~e.prefix_ok THEN <<"init:prior-content-is-not-a-prefix", x.target>>
  ELSE IF x.init_exit0 /\ e.named # x.target THEN <<"init:reports-another-file", x.target>>
  ELSE IF e.exits[3] # 0 THEN <<"init:show-cannot-read-the-configuration-back", x.target>>
  ELSE IF e.changed3 # <<>> THEN <<"init:show-writes", e.changed3>>
  ELSE IF x.init_exit0 /\ e.shown # e.initial THEN <<"init:show-reads-from-elsewhere", e.shown>>
  ELSE IF e.exits[4] = 0 \/ e.changed4 # <<>> THEN <<"init:second-init-not-refused", e.changed4>>
  ELSE Good

\* one abstract configuration written in one syntax and spelling, loaded by the real reader (C18)
\*  e.A : the abstract configuration   e.fmt   e.loaded : projection of the loaded Config ([valid |-> FALSE] if it was rejected)
\*  e.selfwant : the patterns an explicit entry for the config file itself lists (texts, {version} replaced)   e.selfraw : the patterns the loader holds for it
\*  e.cfgfile : the config file's path   e.self : the search pattern(s) the loader attached to the config file itself (ASTs)   e.cvline : the file's current_version line
LoadVerdict(e) ==
  LET x == Effective(e.A) IN
  IF x.valid # e.loaded.valid THEN <<"load:validity", x.valid>>
  ELSE IF ~x.valid THEN Good
  ELSE LET scalars == {"version", "pattern", "commit_message", "tag_message", "tag_scope", "pre", "post", "commit", "tag", "push"}
           bad == {k \in scalars : x[k] # e.loaded[k]} IN
  IF bad # {} THEN <<"load:setting-differs", [k \in bad |-> <<x[k], e.loaded[k]>>]>>
  ELSE IF x.files # {<<e.loaded.files[q][1], e.loaded.files[q][2]>> : q \in 1..Len(e.loaded.files)} THEN <<"load:file-pattern-pairs", x.files>>
  ELSE IF e.self = <<>> THEN <<"load:config-file-own-pattern-missing", 0>>
  ELSE IF \E q \in 1..Len(e.selfwant) : ~\E r \in 1..Len(e.selfraw) : e.selfraw[r] = e.selfwant[q] THEN <<"load:explicit-patterns-of-the-config-file-lost", e.selfraw>>
  ELSE IF ~\E q \in 1..Len(e.self) : Search(Compile(e.self[q]), e.cvline).ok THEN <<"load:own-pattern-does-not-match-current-version-line", e.cvline>>
  \* ... and it is a pattern for the line, not the line as it stands: it finds the line again when the line holds the next version (e.cvline2, optional)
  ELSE IF "cvline2" \in DOMAIN e /\ ~\E q \in 1..Len(e.self) : Search(Compile(e.self[q]), e.cvline).ok /\ Search(Compile(e.self[q]), e.cvline2).ok
       THEN <<"load:own-pattern-is-tied-to-the-current-value", e.cvline2>>
  ELSE Good

Verdict(e) == CASE e.ev = "load" -> LoadVerdict(e) [] e.ev = "init" -> InitVerdict(e) [] OTHER -> <<"unknown-event", e.ev>>
TraceNext == /\ l <= Len(Trace) /\ l' = l + 1
             /\ LET v == Verdict(Trace[l]) IN v[1] = OK \/ Report(Trace[l], v[1], v[2])
TraceAccepted == TLCGet("stats").diameter - 1 = Len(Trace)
=============================================================================
