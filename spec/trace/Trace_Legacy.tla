----------------------------- MODULE Trace_Legacy -----------------------------
(***************************************************************************)
(* Batch validation of legacy ({...}) pattern events recorded from the     *)
(* real code (v1version, `bumpver test V '{...}'`) against BVLegacy (C20). *)
(*   rt1     render / recognise / read back / re-render of a state         *)
(*   derived1  a derived search pattern renders what it finds in full       *)
(*   incr1   old --flags,date--> out  : strictly greater, and the spec's   *)
(*           own IncrV1 as prediction                                      *)
(***************************************************************************)
EXTENDS TraceBase, BVLegacy, BVPep440
VARIABLE l
TraceInit == l = 1
Good == <<OK, 0>>

\*  e.text : the code's rendering of e.v    e.valid : the code's recogniser accepted it    e.back : state read back   e.again : re-rendered
Rt1Verdict(e) ==
  LET t == Render(e.v, e.P) IN
  IF t # e.text THEN <<"rt1:render", t>>
  ELSE LET back == Parse(t, e.P) IN
  IF IsBad(back) # ~e.valid THEN <<"rt1:recogniser-verdict", IsBad(back)>>
  ELSE IF ~e.valid THEN <<"rt1:not-accepted", 0>>
  ELSE IF ~Same(back, e.back) THEN <<"rt1:readback-state", Diff(back, e.back)>>
  ELSE LET ps == Expand(e.P)
           diff == {q \in 1..Len(ps) : ps[q].t = "part" /\ Fmt(ps[q].p, e.back) # Fmt(ps[q].p, e.v)} IN
  IF diff # {} \/ (e.back.tag # e.v.tag /\ \E q \in 1..Len(ps) : ps[q].t = "rel") THEN <<"rt1:part-changed", {ps[q].p : q \in diff}>>
  ELSE IF e.again # e.text THEN <<"rt1:rerender", e.again>>
  ELSE Good

\* a derived search pattern ({pep440_pycalver}, {pep440_tag}, ...): rendered and searched for, never read back
\*  e.text : the code's rendering of e.v    e.accepted : the pattern compiled by the code finds the text in full
Derived1Verdict(e) ==
  LET t == Render(e.v, e.P) acc == ~IsBad(Parse(t, e.P)) IN
  IF t # e.text THEN <<"derived1:render", t>>
  ELSE IF acc # e.accepted THEN <<"derived1:recogniser-verdict", acc>>
  ELSE IF ~e.accepted THEN <<"derived1:not-accepted", 0>>
  ELSE Good

\*  e.old, e.out texts (e.out = <<0>> refused, <<0,0>> overflow)   e.lex : must the result also grow as a plain string ({pycalver})
Incr1Verdict(e) ==
  LET t == Incr(e.old, e.P, e.f, e.date) IN
  IF e.out = None \/ e.out = <<0, 0>> THEN (IF t = e.out THEN Good ELSE <<"incr1:refusal", t>>)
  ELSE IF VerCmp(e.old, e.out) # -1 THEN <<"incr1:not-greater", VerCmp(e.old, e.out)>>
  ELSE IF e.lex /\ LexCmp(e.old, e.out) # -1 THEN <<"incr1:not-lexically-greater", 0>>
  ELSE IF IsBad(Parse(e.out, e.P)) THEN <<"incr1:result-not-accepted", 0>>
  ELSE IF t # e.out THEN <<"incr1:divergence", t>>
  ELSE Good

Verdict(e) == CASE e.ev = "rt1" -> Rt1Verdict(e) [] e.ev = "incr1" -> Incr1Verdict(e) [] e.ev = "derived1" -> Derived1Verdict(e) [] OTHER -> <<"unknown-event", e.ev>>
TraceNext == /\ l <= Len(Trace) /\ l' = l + 1
             /\ LET v == Verdict(Trace[l]) IN v[1] = OK \/ Report(Trace[l], v[1], v[2])
TraceAccepted == TLCGet("stats").diameter - 1 = Len(Trace)
=============================================================================
