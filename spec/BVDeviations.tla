----------------------------- MODULE BVDeviations -----------------------------
(***************************************************************************)
(* Named deviations of the implementation from the documented behaviour    *)
(* that are RECORDED AS KNOWN FINDINGS and not repaired (known_findings.   *)
(* json).  The specification models what the code does: with a deviation   *)
(* switched on, traces of the real code are still accepted and the rest of *)
(* each trace is still checked, while the property predicates stay as the  *)
(* properties state them.  A repaired defect has its switch off.           *)
(*   s6 : --pin-date treats a parsed 0 (week 0) as unknown    (fixed: off) *)
(*   s7 : --tag final --tag-num on a final version not refused (fixed: off)*)
(*   s12: a pattern whose parts are all zero renders as the empty text,     *)
(*        literal text included (the root is dropped like a group)          *)
(*   s14: --ignore-vcs-tag with an automatic increment skips the uniqueness  *)
(*        check                                                              *)
(*   s16: legacy {dom_short} lists its alternatives shortest first and      *)
(*        {doy_short} recognises only the padded form                        *)
(***************************************************************************)
Dev == [s2 |-> FALSE, s6 |-> FALSE, s7 |-> FALSE, s12 |-> TRUE, s14 |-> FALSE, s16 |-> FALSE]
=============================================================================
