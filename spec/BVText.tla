------------------------------- MODULE BVText -------------------------------
(***************************************************************************)
(* Level 0: text.  A text is a sequence of Unicode code points (Seq(Nat)), *)
(* never a TLA+ string, so that the specification can index, split and     *)
(* compare it.  Numbers that may exceed 2^31 (BUILD ids, PEP 440 release   *)
(* components) are kept as digit sequences and compared with NatCmp.       *)
(***************************************************************************)
EXTENDS Integers, Sequences

IsDigit(c)   == c \in 48..57
IsLowerAZ(c) == c \in 97..122
IsUpperAZ(c) == c \in 65..90
AllDigits(d) == d # <<>> /\ \A q \in 1..Len(d) : IsDigit(d[q])

RECURSIVE DigitsOf(_)
DigitsOf(n) == IF n < 10 THEN <<48 + n>> ELSE DigitsOf(n \div 10) \o <<48 + (n % 10)>>

RECURSIVE NatOf(_)
NatOf(d) == IF d = <<>> THEN 0 ELSE NatOf(SubSeq(d, 1, Len(d)-1)) * 10 + (d[Len(d)] - 48)

Pad(d, w) == IF Len(d) >= w THEN d ELSE [q \in 1..(w - Len(d)) |-> 48] \o d

RECURSIVE DropZeros(_)
DropZeros(d) == IF Len(d) > 1 /\ d[1] = 48 THEN DropZeros(Tail(d)) ELSE d

\* three-way comparisons return -1, 0, 1
RECURSIVE LexCmp(_,_)
LexCmp(a, b) == IF a = <<>> /\ b = <<>> THEN 0 ELSE IF a = <<>> THEN -1 ELSE IF b = <<>> THEN 1
                ELSE IF a[1] < b[1] THEN -1 ELSE IF a[1] > b[1] THEN 1 ELSE LexCmp(Tail(a), Tail(b))

\* natural numbers written as digit sequences of any length
NatCmp(a, b) == LET x == DropZeros(a) y == DropZeros(b) IN
                IF Len(x) < Len(y) THEN -1 ELSE IF Len(x) > Len(y) THEN 1 ELSE LexCmp(x, y)

RECURSIVE Flatten(_)
Flatten(ss) == IF ss = <<>> THEN <<>> ELSE ss[1] \o Flatten(Tail(ss))

Join(parts, sep) ==
  LET RECURSIVE J(_)
      J(q) == IF q > Len(parts) THEN <<>> ELSE (IF q > 1 THEN sep ELSE <<>>) \o parts[q] \o J(q+1)
  IN J(1)

Lower(s) == [q \in 1..Len(s) |-> IF IsUpperAZ(s[q]) THEN s[q] + 32 ELSE s[q]]

WS == {32, 9, 10, 11, 12, 13}
RECURSIVE LStrip(_,_), RStrip(_,_)
LStrip(s, cs) == IF s # <<>> /\ s[1] \in cs THEN LStrip(Tail(s), cs) ELSE s
RStrip(s, cs) == IF s # <<>> /\ s[Len(s)] \in cs THEN RStrip(SubSeq(s, 1, Len(s)-1), cs) ELSE s
Strip(s, cs)  == RStrip(LStrip(s, cs), cs)

\* does `sub` occur in `t` starting at position q (1-based)?
OccursAt(t, sub, q) == q >= 1 /\ q + Len(sub) - 1 <= Len(t) /\ SubSeq(t, q, q + Len(sub) - 1) = sub
Contains(t, sub)    == \E q \in 1..(Len(t) - Len(sub) + 1) : OccursAt(t, sub, q)
\* set of start positions of `sub` in `t`
Occurrences(t, sub) == {q \in 1..(Len(t) - Len(sub) + 1) : OccursAt(t, sub, q)}
IsPrefixOf(p, t)    == Len(p) <= Len(t) /\ SubSeq(t, 1, Len(p)) = p

\* split on a set of separator code points (every separator splits; empty pieces are kept)
SplitOn(s, seps) ==
  LET RECURSIVE Go(_,_)
      Go(start, q) == IF q > Len(s) THEN << SubSeq(s, start, Len(s)) >>
                      ELSE IF s[q] \in seps THEN << SubSeq(s, start, q-1) >> \o Go(q+1, q+1) ELSE Go(start, q+1)
  IN Go(1, 1)

\* split on a separator text, scanning left to right without overlap (Python str.split(sep))
SepStarts(t, sep) ==
  LET n == Len(sep)
      RECURSIVE Go(_)
      Go(q) == IF q > Len(t) THEN <<>> ELSE IF OccursAt(t, sep, q) THEN <<q>> \o Go(q + n) ELSE Go(q + 1)
  IN Go(1)
SplitBy(t, sep) ==
  LET st == SepStarts(t, sep) n == Len(sep)
      From(k) == IF k = 1 THEN 1 ELSE st[k-1] + n
      To(k)   == IF k > Len(st) THEN Len(t) ELSE st[k] - 1
  IN [k \in 1..(Len(st) + 1) |-> SubSeq(t, From(k), To(k))]

Max(a, b) == IF a >= b THEN a ELSE b
Min(a, b) == IF a <= b THEN a ELSE b
=============================================================================
