------------------------------ MODULE BVResolve ------------------------------
(***************************************************************************)
(* Level 0: which version an invocation starts from, and the gate a new    *)
(* version must pass (README "The Current Version", tag-scope table).      *)
(*   default : max(config value, greatest valid tag)                       *)
(*   global  : greatest valid tag on any branch                            *)
(*   branch  : greatest valid tag reachable from HEAD                      *)
(*   config value when no tag is valid; tags that do not fully match the   *)
(*   version pattern are ignored.                                          *)
(* `tags` is the list the VCS reports for the scope, in the VCS's order.   *)
(***************************************************************************)
EXTENDS BVVersion, BVPep440

ValidTags(tags, P, today) == SelectSeq(tags, LAMBDA t : IsValid(t, P, today))

\* greatest element under VerCmp; among PEP 440-equal candidates the first in list order
RECURSIVE MaxFrom(_,_,_)
MaxFrom(ts, q, best) == IF q > Len(ts) THEN best
                        ELSE MaxFrom(ts, q + 1, IF VerCmp(ts[q], best) = 1 THEN ts[q] ELSE best)
MaxTag(ts) == MaxFrom(ts, 2, ts[1])

ResolveCurrent(cfgver, tags, scope, P, today) ==
  LET V == ValidTags(tags, P, today) IN
  IF V = <<>> THEN cfgver
  ELSE LET m == MaxTag(V) IN
       IF scope = "default" /\ VerCmp(m, cfgver) # 1 THEN cfgver ELSE m

\* the gate: full match of the pattern, strictly greater than the start version, and (when uniqueness is
\* demanded) textually different from every valid tag of any branch
GateAccepts(P, start, new, unique, alltags, today) ==
  /\ IsValid(new, P, today)
  /\ VerCmp(start, new) = -1
  /\ unique => ~\E q \in 1..Len(alltags) : alltags[q] = new /\ IsValid(alltags[q], P, today)
=============================================================================
