------------------------------ MODULE BVPep440 ------------------------------
(***************************************************************************)
(* Level 0: PEP 440 - grammar (as a BVRegex AST), parsing to a record,     *)
(* ordering, canonical form - and the ordering of non-PEP 440 ("legacy")   *)
(* texts by the pkg_resources token rule.  Written from the PEP 440 text:  *)
(*   [N!]N(.N)*[{a|b|rc}N][.postN][.devN][+local]                          *)
(*   order: epoch; release (trailing zeros insignificant); dev < pre <     *)
(*   final < post; local.  Every legacy text is below every PEP 440 text.  *)
(* Numbers are digit sequences (components may exceed 2^31).               *)
(*   VerCmp(x, y) in {-1, 0, 1};  Canon(text) = PEP 440 normal form        *)
(***************************************************************************)
EXTENDS BVRegex, BVText

\* ---------- PEP 440 grammar as a regex AST ----------
Digit  == Set(48..57)
Digits == Rep(Digit, 1, 0)
Sep    == Opt(Set({45, 95, 46}))                       \* [-_.]?
W(str) == Lit(str)
PreL   == Alt(<<W(<<97>>), W(<<98>>), W(<<99>>), W(<<114,99>>), W(<<97,108,112,104,97>>), W(<<98,101,116,97>>),
                W(<<112,114,101>>), W(<<112,114,101,118,105,101,119>>)>>)   \* a|b|c|rc|alpha|beta|pre|preview
PostL  == Alt(<<W(<<112,111,115,116>>), W(<<114,101,118>>), W(<<114>>)>>)  \* post|rev|r
AlNum  == Set((48..57) \cup (97..122))
PEP440 == Cat(<<
   Opt(Chr(118)),
   Opt(Cat(<<Grp("epoch", Digits), Chr(33)>>)),
   Grp("release", Cat(<<Digits, Rep(Cat(<<Chr(46), Digits>>), 0, 0)>>)),
   Opt(Grp("pre", Cat(<<Sep, Grp("pre_l", PreL), Sep, Opt(Grp("pre_n", Digits))>>))),
   Opt(Grp("post", Alt(<< Cat(<<Chr(45), Grp("post_n1", Digits)>>),
                          Cat(<<Sep, Grp("post_l", PostL), Sep, Opt(Grp("post_n2", Digits))>>) >>))),
   Opt(Grp("dev", Cat(<<Sep, Grp("dev_l", W(<<100,101,118>>)), Sep, Opt(Grp("dev_n", Digits))>>))),
   Opt(Cat(<<Chr(43), Grp("local", Cat(<<Rep(AlNum,1,0), Rep(Cat(<<Set({45,95,46}), Rep(AlNum,1,0)>>), 0, 0)>>))>>)),
   Eol >>)

Has(c, k) == k \in DOMAIN c
No == [has |-> FALSE]
Yes(x) == [has |-> TRUE, v |-> x]
NormLetter(l) == IF l = <<97,108,112,104,97>> THEN <<97>> ELSE IF l = <<98,101,116,97>> THEN <<98>>
                 ELSE IF l \in {<<99>>, <<112,114,101>>, <<112,114,101,118,105,101,119>>} THEN <<114,99>> ELSE l

ParseVer(text) ==
  LET t == Lower(Strip(text, WS))
      m == Match(PEP440, t)
  IN IF ~m.ok THEN [pep |-> FALSE, text |-> text]
     ELSE LET c == m.caps IN
       [pep |-> TRUE,
        epoch   |-> IF Has(c, "epoch") THEN DropZeros(c.epoch) ELSE <<48>>,
        release |-> LET rs == SplitOn(c.release, {46}) IN [q \in 1..Len(rs) |-> DropZeros(rs[q])],
        pre     |-> IF Has(c, "pre_l") THEN Yes(<<NormLetter(c.pre_l), IF Has(c, "pre_n") THEN DropZeros(c.pre_n) ELSE <<48>> >>) ELSE No,
        post    |-> IF Has(c, "post_l") THEN Yes(IF Has(c, "post_n2") THEN DropZeros(c.post_n2) ELSE <<48>>)
                    ELSE IF Has(c, "post_n1") THEN Yes(DropZeros(c.post_n1)) ELSE No,
        dev     |-> IF Has(c, "dev_l") THEN Yes(IF Has(c, "dev_n") THEN DropZeros(c.dev_n) ELSE <<48>>) ELSE No,
        local   |-> IF Has(c, "local") THEN Yes(SplitOn(c.local, {45,95,46})) ELSE No]

\* ---------- comparison of PEP 440 records ----------
RECURSIVE StripTrailZero(_)
StripTrailZero(r) == IF Len(r) > 0 /\ r[Len(r)] = <<48>> THEN StripTrailZero(SubSeq(r,1,Len(r)-1)) ELSE r
RECURSIVE RelCmp(_,_)
RelCmp(a, b) == IF a = <<>> /\ b = <<>> THEN 0 ELSE IF a = <<>> THEN -1 ELSE IF b = <<>> THEN 1
                ELSE LET c == NatCmp(a[1], b[1]) IN IF c # 0 THEN c ELSE RelCmp(Tail(a), Tail(b))
\* pre key: -inf (dev only) < (letter,n) < +inf (no pre)
PreRank(v) == IF ~v.pre.has /\ ~v.post.has /\ v.dev.has THEN 0 ELSE IF ~v.pre.has THEN 2 ELSE 1
PreCmp(a, b) == IF PreRank(a) # PreRank(b) THEN (IF PreRank(a) < PreRank(b) THEN -1 ELSE 1)
                ELSE IF PreRank(a) # 1 THEN 0
                ELSE LET c == LexCmp(a.pre.v[1], b.pre.v[1]) IN IF c # 0 THEN c ELSE NatCmp(a.pre.v[2], b.pre.v[2])
PostCmp(a, b) == IF ~a.post.has /\ ~b.post.has THEN 0 ELSE IF ~a.post.has THEN -1 ELSE IF ~b.post.has THEN 1 ELSE NatCmp(a.post.v, b.post.v)
DevCmp(a, b)  == IF ~a.dev.has /\ ~b.dev.has THEN 0 ELSE IF ~a.dev.has THEN 1 ELSE IF ~b.dev.has THEN -1 ELSE NatCmp(a.dev.v, b.dev.v)
IsNum(p) == p # <<>> /\ \A q \in 1..Len(p) : IsDigit(p[q])
SegCmp(x, y) == IF IsNum(x) /\ IsNum(y) THEN NatCmp(x, y) ELSE IF IsNum(x) THEN 1 ELSE IF IsNum(y) THEN -1 ELSE LexCmp(x, y)
RECURSIVE LocSeqCmp(_,_)
LocSeqCmp(a, b) == IF a = <<>> /\ b = <<>> THEN 0 ELSE IF a = <<>> THEN -1 ELSE IF b = <<>> THEN 1
                   ELSE LET c == SegCmp(a[1], b[1]) IN IF c # 0 THEN c ELSE LocSeqCmp(Tail(a), Tail(b))
LocalCmp(a, b) == IF ~a.local.has /\ ~b.local.has THEN 0 ELSE IF ~a.local.has THEN -1 ELSE IF ~b.local.has THEN 1 ELSE LocSeqCmp(a.local.v, b.local.v)
FirstNonZero(cs) == IF cs[1] # 0 THEN cs[1] ELSE IF cs[2] # 0 THEN cs[2] ELSE IF cs[3] # 0 THEN cs[3] ELSE IF cs[4] # 0 THEN cs[4] ELSE IF cs[5] # 0 THEN cs[5] ELSE cs[6]
PepCmp(a, b) == FirstNonZero(<< NatCmp(a.epoch, b.epoch), RelCmp(StripTrailZero(a.release), StripTrailZero(b.release)),
                         PreCmp(a, b), PostCmp(a, b), DevCmp(a, b), LocalCmp(a, b) >>)

\* ---------- legacy (pkg_resources) key ----------
Kind(c) == IF IsDigit(c) THEN 1 ELSE IF IsLowerAZ(c) THEN 2 ELSE IF c = 46 THEN 3 ELSE IF c = 45 THEN 4 ELSE 5
\* tokens: maximal digit runs, maximal a-z runs, single '.' and '-', maximal runs of anything else
Tokens(s) ==
  LET RECURSIVE Go(_,_)
      Go(start, q) ==
        IF start > Len(s) THEN <<>>
        ELSE IF q <= Len(s) /\ Kind(s[q]) = Kind(s[start]) /\ Kind(s[start]) \in {1,2,5} THEN Go(start, q+1)
        ELSE LET e == IF q = start THEN start ELSE q - 1 IN << SubSeq(s, start, e) >> \o Go(e+1, e+2)
  IN Go(1, 2)
Star == 42
FINAL == <<42,102,105,110,97,108>>        \* "*final"
FINALDASH == <<42,102,105,110,97,108,45>> \* "*final-"
ZFill8(d) == IF Len(d) >= 8 THEN d ELSE [q \in 1..(8 - Len(d)) |-> 48] \o d
ZERO8 == [q \in 1..8 |-> 48]
MapTok(t) == IF t = <<112,114,101>> \/ t = <<112,114,101,118,105,101,119>> \/ t = <<114,99>> THEN <<99>>
             ELSE IF t = <<45>> THEN <<102,105,110,97,108,45>>
             ELSE IF t = <<100,101,118>> THEN <<64>> ELSE t
\* parts yielded by _parse_version_parts
Parts(s) == LET ts == Tokens(s)
                ms == [q \in 1..Len(ts) |-> MapTok(ts[q])]
                keep == SelectSeq(ms, LAMBDA t : t # <<>> /\ t # <<46>>)
            IN [q \in 1..Len(keep) |-> IF IsDigit(keep[q][1]) THEN ZFill8(keep[q]) ELSE <<Star>> \o keep[q]] \o <<FINAL>>
RECURSIVE PopWhile(_,_)
PopWhile(ps, x) == IF ps # <<>> /\ ps[Len(ps)] = x THEN PopWhile(SubSeq(ps,1,Len(ps)-1), x) ELSE ps
RECURSIVE Fold(_,_,_)
Fold(ps, q, acc) == IF q > Len(ps) THEN acc
                    ELSE LET p == ps[q]
                             a1 == IF p[1] = Star THEN PopWhile(IF LexCmp(p, FINAL) < 0 THEN PopWhile(acc, FINALDASH) ELSE acc, ZERO8) ELSE acc
                         IN Fold(ps, q+1, Append(a1, p))
LegacyKey(text) == Fold(Parts(Lower(text)), 1, <<>>)
RECURSIVE KeyCmp(_,_)
KeyCmp(a, b) == IF a = <<>> /\ b = <<>> THEN 0 ELSE IF a = <<>> THEN -1 ELSE IF b = <<>> THEN 1
                ELSE LET c == LexCmp(a[1], b[1]) IN IF c # 0 THEN c ELSE KeyCmp(Tail(a), Tail(b))

VerCmp(x, y) == LET a == ParseVer(x) b == ParseVer(y) IN
   IF a.pep /\ b.pep THEN PepCmp(a, b) ELSE IF a.pep THEN 1 ELSE IF b.pep THEN -1 ELSE KeyCmp(LegacyKey(x), LegacyKey(y))

\* ---------- canonical form ----------
\* normal form of a record
PrintRec(a) ==
   (IF a.epoch # <<48>> THEN a.epoch \o <<33>> ELSE <<>>) \o Join(a.release, <<46>>)
   \o (IF a.pre.has THEN a.pre.v[1] \o a.pre.v[2] ELSE <<>>)
   \o (IF a.post.has THEN <<46,112,111,115,116>> \o a.post.v ELSE <<>>)
   \o (IF a.dev.has THEN <<46,100,101,118>> \o a.dev.v ELSE <<>>)
   \o (IF a.local.has THEN <<43>> \o Join([q \in 1..Len(a.local.v) |-> IF IsNum(a.local.v[q]) THEN DropZeros(a.local.v[q]) ELSE a.local.v[q]], <<46>>) ELSE <<>>)
Canon(text) == LET a == ParseVer(text) IN IF ~a.pep THEN text ELSE
   (IF a.epoch # <<48>> THEN a.epoch \o <<33>> ELSE <<>>) \o Join(a.release, <<46>>)
   \o (IF a.pre.has THEN a.pre.v[1] \o a.pre.v[2] ELSE <<>>)
   \o (IF a.post.has THEN <<46,112,111,115,116>> \o a.post.v ELSE <<>>)
   \o (IF a.dev.has THEN <<46,100,101,118>> \o a.dev.v ELSE <<>>)
   \o (IF a.local.has THEN <<43>> \o Join([q \in 1..Len(a.local.v) |-> IF IsNum(a.local.v[q]) THEN DropZeros(a.local.v[q]) ELSE a.local.v[q]], <<46>>) ELSE <<>>)

=============================================================================
