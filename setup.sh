#!/bin/sh
# Build step of the framework: parse every specification module (offline; nothing is compiled or fetched).
cd "$(dirname "$0")" || exit 2
rc=0
LIB="$(pwd)/spec:$(pwd)/spec/trace:$(pwd)/spec/mc"
for f in spec/*.tla spec/trace/*.tla spec/mc/*.tla; do
  out=$(cd "$(dirname "$f")" && java -DTLA-Library="$LIB" -cp /opt/veriftools/tla/tla2tools.jar:/opt/veriftools/tla/CommunityModules-deps.jar tla2sany.SANY "$(basename "$f")" 2>&1)
  if echo "$out" | grep -q -E "Could not parse|\*\*\* Errors|Fatal errors|Semantic errors|already defined"; then echo "SANY FAILED: $f"; echo "$out" | tail -15; rc=1; fi
done
/venv/bin/python -c "import bumpver, click, hypothesis" || rc=1
mkdir -p evidence replay
[ $rc = 0 ] && echo "setup ok"
exit $rc
